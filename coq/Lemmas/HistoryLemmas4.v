(* Lemmas/HistoryLemmas4.v — the legacy PEG bank: batches that consist only of PEG requests.
   Part A: recordBatch with deferred PEG requests (the row keeps to_amount 0 and stands for the debit alone).
   Part B: recordPegnetRequests (second pass): yield and refund are written to the row and credited.
   Part C: the chain theorem with H2 weakened to "clean or pure PEG" batches. *)
From Model Require Import Obs Examples.
From Lemmas Require Import ArithLemmas DbLemmas LedgerLemmas BlockLemmas FrameLemmas ChainLemmas HoldingLemmas
     RewardLemmas StatusLemmas HistoryLemmas HistoryLemmas2 HistoryLemmas3.
From Gen Require Import Consts.
From Coq Require Import Lia ZifyBool RelationClasses.
Open Scope Z_scope.
Open Scope list_scope.

Section PartA.
Variable c : cfg.

Definition deferred (h : Z) (t : tx) : bool := (c_PegnetConversionLimitActivation c <=? h) && is_peg_request t.
(* the row recordBatch leaves: a deferred PEG request keeps the row as inserted *)
Definition exec_row2 (h : Z) (rates avgs : gmap ticker Z) (hs : hash) (idx : Z) (t : tx) : htx :=
  if deferred h t then pend_row hs idx t else exec_row c h rates avgs hs idx t.
Fixpoint exec_rows2 (h : Z) (rates avgs : gmap ticker Z) (hs : hash) (idx : Z) (txs : list tx) : list htx :=
  match txs with [] => [] | t :: rest => exec_row2 h rates avgs hs idx t :: exec_rows2 h rates avgs hs (idx + 1) rest end.

Lemma exec_rows2_no_deferred h rates avgs hs txs : forall idx,
  no_deferred c h txs = true -> exec_rows2 h rates avgs hs idx txs = exec_rows c h rates avgs hs idx txs.
Proof.
  induction txs as [|t txs IH]; intros idx Hnd; [reflexivity|]. cbn [exec_rows2 exec_rows].
  unfold no_deferred in Hnd. cbn [existsb] in Hnd. unfold exec_row2, deferred.
  destruct (c_PegnetConversionLimitActivation c <=? h) eqn:E; cbn [andb negb] in *.
  - apply negb_true_iff, orb_false_iff in Hnd as [H1 H2]. rewrite H1. f_equal. apply IH. unfold no_deferred. rewrite E, H2. reflexivity.
  - f_equal. apply IH. unfold no_deferred. rewrite E. reflexivity.
Qed.
Lemma exec_rows2_all_deferred h rates avgs hs txs : forall idx,
  forallb (deferred h) txs = true -> exec_rows2 h rates avgs hs idx txs = pend_rows hs idx txs.
Proof.
  induction txs as [|t txs IH]; intros idx H; [reflexivity|]. cbn [forallb] in H. apply andb_prop in H as [H1 H2].
  cbn [exec_rows2 pend_rows]. unfold exec_row2. rewrite H1, IH by exact H2. reflexivity.
Qed.

Lemma row_effect_pend_conv burn hs idx t :
  is_conversion t = true ->
  row_effect burn (pend_row hs idx t) = [((tx_addr t, tx_type t), - tx_amt t); ((tx_addr t, tx_conv t), 0)].
Proof. intros E. unfold pend_row. rewrite E. reflexivity. Qed.

(* T1 without the no-deferral condition *)
Lemma record_txs_history2 h hs rates avgs txs : forall idx s s' pre,
  record_txs c h hs rates avgs idx txs s = Ok s' ->
  convs_fit c h rates avgs txs = true ->
  rows_of hs (htxs s) = pre ++ pend_rows hs idx txs ->
  Forall (fun r => ht_index r < idx) pre ->
  rows_of hs (htxs s') = pre ++ exec_rows2 h rates avgs hs idx txs /\
  rows_not hs (htxs s') = rows_not hs (htxs s) /\
  hist s' = match txs with [] => hist s | _ => mark_exec hs h (hist s) end /\
  (forall a t, get_bal (bal s') a t =
               get_bal (bal s) a t + rows_effect (burn_addr c h) a t (exec_rows2 h rates avgs hs idx txs)).
Proof.
  induction txs as [|t txs IH]; intros idx s s' pre H Hfit Hrows Hpre; cbn [record_txs] in H.
  - inversion H; subst. cbn [exec_rows2 pend_rows] in *. repeat split; auto. intros a t. rewrite rows_effect_nil. lia.
  - destruct (sub_from_balance s (tx_addr t) (tx_type t) (tx_amt t)) as [s1| |code] eqn:Es; try discriminate.
    destruct (sub_from_balance_tables _ _ _ _ _ Es) as (T1 & T2 & _).
    set (s3 := set_executed (insert_relation s1 (tx_addr t) hs idx false (is_conversion t)) hs h) in *.
    assert (X3 : htxs s3 = htxs s) by (unfold s3; rewrite htxs_set_executed, htxs_insert_relation; exact T1).
    assert (Y3 : hist s3 = mark_exec hs h (hist s)) by (unfold s3; rewrite hist_set_executed, hist_insert_relation, T2; reflexivity).
    assert (B3 : forall a t', get_bal (bal s3) a t' =
                   get_bal (bal s) a t' - (if (tx_addr t =? a) && (tx_type t =? t') then tx_amt t else 0)).
    { intros a t'. unfold s3. rewrite bal_set_executed, bal_insert_relation. exact (get_bal_sub _ _ _ _ _ a t' Es). }
    fold (deferred h t) in H.
    unfold convs_fit in Hfit. cbn [forallb] in Hfit. apply andb_prop in Hfit as [Hf1 Hf2]. fold (convs_fit c h rates avgs txs) in Hf2.
    cbn [pend_rows] in Hrows. cbn [exec_rows2].
    assert (Hpre' : forall r0, ht_index r0 = idx -> Forall (fun r => ht_index r < idx + 1) (pre ++ [r0])).
    { intros r0 Hr0. apply Forall_app. split; [eapply Forall_impl; [|exact Hpre]; cbn; intros; lia|].
      constructor; [lia|constructor]. }
    destruct (deferred h t) eqn:Hd1.
    + (* a PEG request whose output is deferred: only the debit, the row stays as inserted *)
      destruct (conv_of c h rates avgs t); [|discriminate].
      assert (Ec : is_conversion t = true).
      { unfold deferred in Hd1. apply andb_prop in Hd1 as [_ Hd1]. apply is_peg_request_is_conversion; exact Hd1. }
      assert (Erow : exec_row2 h rates avgs hs idx t = pend_row hs idx t) by (unfold exec_row2; rewrite Hd1; reflexivity).
      assert (X4 : rows_of hs (htxs s3) = (pre ++ [exec_row2 h rates avgs hs idx t]) ++ pend_rows hs (idx + 1) txs).
      { rewrite X3, Hrows, Erow, <- app_assoc. reflexivity. }
      assert (Ei : ht_index (exec_row2 h rates avgs hs idx t) = idx) by (rewrite Erow; unfold pend_row; rewrite Ec; reflexivity).
      destruct (IH _ _ _ _ H Hf2 X4 (Hpre' _ Ei)) as (R1 & R2 & R3 & R4).
      split; [rewrite R1, <- app_assoc; reflexivity|]. split; [congruence|].
      split.
      { rewrite R3, Y3. destruct txs; [reflexivity|apply mark_exec_idem]. }
      intros a t'. rewrite R4, rows_effect_cons, Erow, (row_effect_pend_conv _ _ _ _ Ec).
      rewrite B3, !effect_on_cons, effect_on_nil. cbn [fst snd].
      unfold ticker, addr in *. destruct ((tx_addr t =? a) && (tx_type t =? t')), ((tx_addr t =? a) && (tx_conv t =? t')); lia.
    + assert (E2 : exec_row2 h rates avgs hs idx t = exec_row c h rates avgs hs idx t) by (unfold exec_row2; rewrite Hd1; reflexivity).
      rewrite E2.
      destruct (is_conversion t) eqn:Ec.
      * destruct (conv_of c h rates avgs t) as [out|] eqn:Eo; [|discriminate].
        cbn [negb orb] in Hf1. apply Z.eqb_eq in Hf1.
        apply rbind_ok in H as (s5 & Hadd & Hrest).
        destruct (add_to_balance_tables _ _ _ _ _ Hadd) as (U1 & U2 & _).
        assert (Erow : exec_row c h rates avgs hs idx t =
                       {| ht_hash := hs; ht_index := idx; ht_action := 2; ht_from := tx_addr t; ht_from_asset := tx_type t;
                          ht_from_amount := tx_amt t; ht_to_asset := tx_conv t; ht_to_amount := out; ht_outputs := [] |}).
        { unfold exec_row, conv_out. rewrite Ec, Eo. reflexivity. }
        assert (X5 : rows_of hs (htxs s5) = (pre ++ [exec_row c h rates avgs hs idx t]) ++ pend_rows hs (idx + 1) txs).
        { rewrite U1. unfold set_to_amount, upd_htx. cbn [htxs set_htxs]. rewrite rows_of_upd by reflexivity.
          rewrite X3, Hrows, map_app. cbn [map]. rewrite <- app_assoc. cbn [app].
          rewrite map_upd_skip by (eapply Forall_impl; [|exact Hpre]; cbn; intros; lia).
          rewrite map_upd_skip by (eapply Forall_impl; [|apply pend_rows_index]; cbn; intros; lia).
          f_equal. f_equal. rewrite Erow. unfold pend_row. rewrite Ec. cbn [ht_index]. rewrite Z.eqb_refl. reflexivity. }
        assert (N5 : rows_not hs (htxs s5) = rows_not hs (htxs s)).
        { rewrite U1. unfold set_to_amount, upd_htx. cbn [htxs set_htxs]. rewrite rows_not_upd by reflexivity. rewrite X3. reflexivity. }
        assert (Ei : ht_index (exec_row c h rates avgs hs idx t) = idx) by (rewrite Erow; reflexivity).
        destruct (IH _ _ _ _ Hrest Hf2 X5 (Hpre' _ Ei)) as (R1 & R2 & R3 & R4).
        split; [rewrite R1, <- app_assoc; reflexivity|]. split; [congruence|].
        split.
        { rewrite R3, U2. unfold set_to_amount, upd_htx. cbn [hist set_htxs]. rewrite Y3.
          destruct txs; [reflexivity|apply mark_exec_idem]. }
        intros a t'. rewrite R4, rows_effect_cons, (row_effect_exec_conv c _ _ _ _ _ _ _ Ec).
        rewrite (get_bal_add _ _ _ _ _ a t' Hadd), bal_set_to_amount, B3, Hf1.
        rewrite !effect_on_cons, effect_on_nil. cbn [fst snd]. unfold conv_out. rewrite Eo.
        unfold ticker, addr in *. destruct ((tx_addr t =? a) && (tx_type t =? t')), ((tx_addr t =? a) && (tx_conv t =? t')); lia.
      * apply rbind_ok in H as (s4 & Hc & Hrest).
        destruct (credit_transfers_effect c _ _ _ _ _ _ _ Hc) as (U1 & U2 & U3).
        assert (Erow : exec_row c h rates avgs hs idx t = pend_row hs idx t) by (unfold exec_row; rewrite Ec; reflexivity).
        assert (X4 : rows_of hs (htxs s4) = (pre ++ [exec_row c h rates avgs hs idx t]) ++ pend_rows hs (idx + 1) txs).
        { rewrite U1, X3, Hrows, Erow, <- app_assoc. reflexivity. }
        assert (Ei : ht_index (exec_row c h rates avgs hs idx t) = idx) by (rewrite Erow; unfold pend_row; rewrite Ec; reflexivity).
        destruct (IH _ _ _ _ Hrest Hf2 X4 (Hpre' _ Ei)) as (R1 & R2 & R3 & R4).
        split; [rewrite R1, <- app_assoc; reflexivity|]. split; [congruence|].
        split.
        { rewrite R3, U2, Y3. destruct txs; [reflexivity|apply mark_exec_idem]. }
        intros a t'. rewrite R4, rows_effect_cons, (row_effect_exec_transfer c _ _ _ _ _ _ _ Ec).
        rewrite U3, B3, effect_on_cons. cbn [fst snd].
        unfold ticker, addr in *. destruct ((tx_addr t =? a) && (tx_type t =? t')); lia.
Qed.
End PartA.

(* ==== Part B: recordPegnetRequests ============================================================================ *)
(* the rows with primary key (hash, index) *)
Definition rows_at (hs : hash) (idx : Z) (l : list htx) : list htx :=
  filter (fun r => (ht_hash r =? hs) && (ht_index r =? idx)) l.
(* what SetTransactionHistoryPEGConvertRequestAmounts writes into a row *)
Definition set_paid (amt : Z) (out : list (addr * Z)) (r : htx) : htx :=
  {| ht_hash := ht_hash r; ht_index := ht_index r; ht_action := ht_action r; ht_from := ht_from r;
     ht_from_asset := ht_from_asset r; ht_from_amount := ht_from_amount r; ht_to_asset := ht_to_asset r;
     ht_to_amount := amt; ht_outputs := out |}.
Definition upd_at (hs : hash) (idx : Z) (f : htx -> htx) (l : list htx) : list htx :=
  map (fun r => if (ht_hash r =? hs) && (ht_index r =? idx) then f r else r) l.

Lemma htxs_set_peg s hs i amt out : htxs (set_peg_request_amounts s hs i amt out) = upd_at hs i (set_paid amt out) (htxs s).
Proof. reflexivity. Qed.

Lemma upd_at_none hs idx f l : rows_at hs idx l = [] -> upd_at hs idx f l = l.
Proof.
  unfold rows_at, upd_at. induction l as [|r l IH]; [reflexivity|]. cbn [filter map].
  destruct ((ht_hash r =? hs) && (ht_index r =? idx)); [discriminate|]. intros H. rewrite IH by exact H. reflexivity.
Qed.
Lemma fold_sum_upd (g : htx -> Z) hs idx f l row0 :
  rows_at hs idx l = [row0] ->
  fold_right (fun r acc => g r + acc) 0 (upd_at hs idx f l) = fold_right (fun r acc => g r + acc) 0 l - g row0 + g (f row0).
Proof.
  unfold rows_at. induction l as [|r l IH]; [discriminate|]. cbn [filter]. unfold upd_at in *. cbn [map fold_right].
  destruct ((ht_hash r =? hs) && (ht_index r =? idx)) eqn:E.
  - intros H. inversion H as [[H1 H2]]. fold (rows_at hs idx l) in H2. pose proof (upd_at_none hs idx f l H2) as Hn. unfold upd_at in Hn.
    rewrite Hn. lia.
  - intros H. rewrite (IH H). lia.
Qed.
Lemma rows_at_upd_other hs idx f l hs' idx' :
  (forall r, ht_hash (f r) = ht_hash r /\ ht_index (f r) = ht_index r) -> (hs', idx') <> (hs, idx) ->
  rows_at hs' idx' (upd_at hs idx f l) = rows_at hs' idx' l.
Proof.
  intros Hf N. unfold rows_at, upd_at. induction l as [|r l IH]; [reflexivity|]. cbn [map filter].
  destruct ((ht_hash r =? hs) && (ht_index r =? idx)) eqn:E.
  - destruct (Hf r) as [-> ->]. apply andb_prop in E as [E1 E2]. apply Z.eqb_eq in E1, E2.
    assert (((ht_hash r =? hs') && (ht_index r =? idx')) = false) as ->.
    { destruct (Z.eqb_spec (ht_hash r) hs'), (Z.eqb_spec (ht_index r) idx'); try reflexivity. exfalso. apply N. congruence. }
    exact IH.
  - destruct ((ht_hash r =? hs') && (ht_index r =? idx')); [f_equal|]; exact IH.
Qed.
Lemma rows_at_upd_same hs idx f l :
  (forall r, ht_hash (f r) = ht_hash r /\ ht_index (f r) = ht_index r) ->
  rows_at hs idx (upd_at hs idx f l) = map f (rows_at hs idx l).
Proof.
  intros Hf. unfold rows_at, upd_at. induction l as [|r l IH]; [reflexivity|]. cbn [map filter].
  destruct ((ht_hash r =? hs) && (ht_index r =? idx)) eqn:E.
  - destruct (Hf r) as [-> ->]. rewrite E. cbn [map]. f_equal. exact IH.
  - rewrite E. exact IH.
Qed.
Lemma set_paid_keys amt out r : ht_hash (set_paid amt out r) = ht_hash r /\ ht_index (set_paid amt out r) = ht_index r.
Proof. split; reflexivity. Qed.
Lemma rows_of_upd_at_other hs idx f l hs' :
  (forall r, ht_hash (f r) = ht_hash r) -> hs' <> hs -> rows_of hs' (upd_at hs idx f l) = rows_of hs' l.
Proof.
  intros Hf N. unfold upd_at. rewrite <- (rows_of_via_not hs' hs _ N), (rows_not_upd hs idx f l Hf). apply rows_of_via_not; exact N.
Qed.
Lemma rows_at_of hs idx l : rows_at hs idx l = rows_at hs idx (rows_of hs l).
Proof.
  unfold rows_at, rows_of. induction l as [|r l IH]; [reflexivity|]. cbn [filter].
  destruct (ht_hash r =? hs) eqn:E; cbn [andb filter]; [rewrite E; cbn [andb]; destruct (ht_index r =? idx); [f_equal|]; exact IH|exact IH].
Qed.

Lemma pend_row_keys hs idx t : ht_hash (pend_row hs idx t) = hs /\ ht_index (pend_row hs idx t) = idx.
Proof. unfold pend_row. destruct (is_conversion t); split; reflexivity. Qed.

Section PartB.
Variable c : cfg.

Lemma refund_range pip10 inp y ir pr : 0 <= ir -> 0 <= pr -> 0 <= refund pip10 inp y ir pr <= max_int64.
Proof.
  intros Hi Hp. unfold refund. destruct (convert pip10 _ pr pr ir ir) eqn:E; [|unfold max_int64; lia].
  apply (convert_range _ _ _ _ _ _ _ Hp Hp Hi Hi E).
Qed.

Definition refund_of (h : Z) (rates : gmap ticker Z) (t : tx) (yield : Z) : Z :=
  refund (c_PIP10AverageActivation c <=? h) (tx_amt t) yield (rate_of rates (tx_type t)) (rate_of rates (tx_conv t)).
(* the row of a PEG request after the second pass *)
Definition paid_row (h : Z) (rates : gmap ticker Z) (hs : hash) (idx : Z) (t : tx) (yield : Z) : htx :=
  set_paid yield [(tx_addr t, refund_of h rates t yield)] (pend_row hs idx t).

Lemma row_effect_paid burn h rates hs idx t yield :
  is_conversion t = true ->
  row_effect burn (paid_row h rates hs idx t yield) =
  [((tx_addr t, tx_type t), - tx_amt t); ((tx_addr t, tx_conv t), yield); ((tx_addr t, tx_type t), refund_of h rates t yield)].
Proof. intros E. unfold paid_row, pend_row. rewrite E. reflexivity. Qed.

(* one payout *)
Lemma pay_request_step h rates reqs s p s' r :
  pay_request c h rates reqs s p = Ok s' ->
  find (fun r0 => txid_eqb (pr_txid r0) (fst p)) reqs = Some r ->
  (forall t, 0 <= rate_of rates t) ->
  hist s' = hist s /\ rel s' = rel s /\ holding s' = holding s /\ Db.rates s' = Db.rates s /\
  htxs s' = upd_at (fst (fst p)) (snd (fst p)) (set_paid (snd p) [(tx_addr (pr_tx r), refund_of h rates (pr_tx r) (snd p))]) (htxs s) /\
  forall a t, get_bal (bal s') a t =
    get_bal (bal s) a t + (if (tx_addr (pr_tx r) =? a) && (tx_conv (pr_tx r) =? t) then snd p else 0)
                        + (if (tx_addr (pr_tx r) =? a) && (tx_type (pr_tx r) =? t) then refund_of h rates (pr_tx r) (snd p) else 0).
Proof.
  intros H Hf Hr. unfold pay_request in H. rewrite Hf in H. cbv zeta in H.
  apply rbind_ok in H as (s2 & H1 & H2).
  destruct (add_to_balance_tables _ _ _ _ _ H1) as (A1 & A2 & A3 & A4).
  destruct (add_to_balance_tables _ _ _ _ _ H2) as (B1 & B2 & B3 & B4).
  assert (Rt1 : Db.rates s2 = Db.rates s) by (apply add_to_balance_ok in H1 as (_ & _ & ->); reflexivity).
  assert (Rt2 : Db.rates s' = Db.rates s2) by (apply add_to_balance_ok in H2 as (_ & _ & ->); reflexivity).
  assert (Hw : wrap64 (refund_of h rates (pr_tx r) (snd p)) = refund_of h rates (pr_tx r) (snd p)).
  { apply wrap64_small. pose proof (refund_range (c_PIP10AverageActivation c <=? h) (tx_amt (pr_tx r)) (snd p) _ _ (Hr (tx_type (pr_tx r))) (Hr (tx_conv (pr_tx r)))) as Rg.
    unfold refund_of. unfold max_int64, two64 in *. lia. }
  split; [rewrite B2, A2; reflexivity|]. split; [rewrite B3, A3; reflexivity|]. split; [rewrite B4, A4; reflexivity|].
  split; [congruence|]. split; [rewrite B1, A1, htxs_set_peg; reflexivity|].
  intros a t. rewrite (get_bal_add _ _ _ _ _ a t H2), (get_bal_add _ _ _ _ _ a t H1), bal_set_peg_request_amounts.
  fold (refund_of h rates (pr_tx r) (snd p)). rewrite Hw. reflexivity.
Qed.

(* a request whose row is still as insert_history wrote it *)
Definition pristine (s : db) (r : peg_req) : Prop :=
  rows_at (fst (pr_txid r)) (snd (pr_txid r)) (htxs s) = [pend_row (fst (pr_txid r)) (snd (pr_txid r)) (pr_tx r)] /\
  is_peg_request (pr_tx r) = true.

Definition found (reqs : list peg_req) (p : txid * Z) : option peg_req :=
  find (fun r0 => txid_eqb (pr_txid r0) (fst p)) reqs.
(* what one payout adds to a sum over the table / to a cell *)
Definition pay_delta (h : Z) (rates : gmap ticker Z) (reqs : list peg_req) (g : htx -> Z) (p : txid * Z) : Z :=
  match found reqs p with
  | Some r => g (paid_row h rates (fst (fst p)) (snd (fst p)) (pr_tx r) (snd p)) - g (pend_row (fst (fst p)) (snd (fst p)) (pr_tx r))
  | None => 0
  end.
Definition pay_credit (h : Z) (rates : gmap ticker Z) (reqs : list peg_req) (a : addr) (t : ticker) (p : txid * Z) : Z :=
  match found reqs p with
  | Some r => (if (tx_addr (pr_tx r) =? a) && (tx_conv (pr_tx r) =? t) then snd p else 0)
              + (if (tx_addr (pr_tx r) =? a) && (tx_type (pr_tx r) =? t) then refund_of h rates (pr_tx r) (snd p) else 0)
  | None => 0
  end.
Definition sum_over {X} (f : X -> Z) (l : list X) : Z := fold_right (fun x acc => f x + acc) 0 l.

Lemma sum_over_cons {X} (f : X -> Z) x l : sum_over f (x :: l) = f x + sum_over f l.
Proof. reflexivity. Qed.
Lemma pay_delta_some h rates reqs g p r : found reqs p = Some r ->
  pay_delta h rates reqs g p = g (paid_row h rates (fst (fst p)) (snd (fst p)) (pr_tx r) (snd p)) - g (pend_row (fst (fst p)) (snd (fst p)) (pr_tx r)).
Proof. intros E. unfold pay_delta. rewrite E. reflexivity. Qed.
Lemma pay_delta_none h rates reqs g p : found reqs p = None -> pay_delta h rates reqs g p = 0.
Proof. intros E. unfold pay_delta. rewrite E. reflexivity. Qed.
Lemma pay_credit_some h rates reqs a t p r : found reqs p = Some r ->
  pay_credit h rates reqs a t p = (if (tx_addr (pr_tx r) =? a) && (tx_conv (pr_tx r) =? t) then snd p else 0)
              + (if (tx_addr (pr_tx r) =? a) && (tx_type (pr_tx r) =? t) then refund_of h rates (pr_tx r) (snd p) else 0).
Proof. intros E. unfold pay_credit. rewrite E. reflexivity. Qed.
Lemma pay_credit_none h rates reqs a t p : found reqs p = None -> pay_credit h rates reqs a t p = 0.
Proof. intros E. unfold pay_credit. rewrite E. reflexivity. Qed.
Lemma sum_over_upd (g : htx -> Z) hs idx f l row0 :
  rows_at hs idx l = [row0] -> sum_over g (upd_at hs idx f l) = sum_over g l - g row0 + g (f row0).
Proof. apply fold_sum_upd. Qed.

Lemma found_key reqs p r : found reqs p = Some r -> pr_txid r = fst p.
Proof. unfold found. intros H. apply find_some in H as [_ H]. apply txid_eqb_eq in H. exact H. Qed.

Lemma pay_fold h rates reqs : forall ps s s',
  fold_left (fun r p => let? s0 := r in pay_request c h rates reqs s0 p) ps (Ok s) = Ok s' ->
  (forall t, 0 <= rate_of rates t) -> NoDup (map fst ps) ->
  (forall p r, In p ps -> found reqs p = Some r -> pristine s r) ->
  hist s' = hist s /\ rel s' = rel s /\ holding s' = holding s /\ Db.rates s' = Db.rates s /\
  (forall hs, (forall p, In p ps -> fst (fst p) <> hs) -> rows_of hs (htxs s') = rows_of hs (htxs s)) /\
  (forall g : htx -> Z, sum_over g (htxs s') = sum_over g (htxs s) + sum_over (pay_delta h rates reqs g) ps) /\
  (forall a t, get_bal (bal s') a t = get_bal (bal s) a t + sum_over (pay_credit h rates reqs a t) ps) /\
  (forall p r, In p ps -> found reqs p = Some r ->
     rows_at (fst (fst p)) (snd (fst p)) (htxs s') = [paid_row h rates (fst (fst p)) (snd (fst p)) (pr_tx r) (snd p)]).
Proof.
  induction ps as [|p ps IH]; intros s s' H Hr Hnd Hpr; cbn [fold_left] in H.
  - inversion H; subst. repeat split; auto; try (intros; cbn; lia). intros p r [].
  - cbn [rbind] in H. cbn [map] in Hnd. inversion Hnd as [|? ? Hnotin Hnd']; subst.
    destruct (pay_request c h rates reqs s p) as [s1|e|e] eqn:E;
      [|exfalso; eapply fold_res_fail; exact H|exfalso; eapply fold_res_panic; exact H].
    destruct (found reqs p) as [r|] eqn:Ef.
    + destruct (pay_request_step h rates reqs s p s1 r E Ef Hr) as (A1 & A2 & A3 & A4 & A5 & A6).
      pose proof (found_key _ _ _ Ef) as Ek.
      destruct (Hpr p r (or_introl eq_refl) Ef) as [P1 P2]. rewrite Ek in P1.
      assert (Hpr1 : forall p' r', In p' ps -> found reqs p' = Some r' -> pristine s1 r').
      { intros p' r' Hin Hf'. destruct (Hpr p' r' (or_intror Hin) Hf') as [Q1 Q2]. split; [|exact Q2].
        rewrite A5, (found_key _ _ _ Hf'). rewrite (found_key _ _ _ Hf') in Q1.
        rewrite rows_at_upd_other; [exact Q1|intros r0; apply set_paid_keys|].
        intros Eq. apply Hnotin. replace (fst p) with (fst p'); [apply in_map; exact Hin|].
        destruct (fst p') as [x1 x2], (fst p) as [y1 y2]. cbn [fst snd] in Eq. exact Eq. }
      destruct (IH s1 s' H Hr Hnd' Hpr1) as (I1 & I2 & I3 & I4 & I5 & I6 & I7 & I8).
      split; [congruence|]. split; [congruence|]. split; [congruence|]. split; [congruence|].
      split.
      { intros hs Hhs. rewrite I5 by (intros p' Hin; apply Hhs; right; exact Hin).
        rewrite A5. apply rows_of_upd_at_other; [reflexivity|]. intros E0. exact (Hhs p (or_introl eq_refl) (eq_sym E0)). }
      split.
      { intros g. rewrite (I6 g), A5, (sum_over_upd g _ _ _ _ _ P1), sum_over_cons, (pay_delta_some _ _ _ _ _ _ Ef).
        unfold paid_row. lia. }
      split.
      { intros a t. rewrite (I7 a t), (A6 a t), sum_over_cons, (pay_credit_some _ _ _ _ _ _ _ Ef). lia. }
      intros p' r' [<-|Hin] Hf'.
      * rewrite Ef in Hf'. inversion Hf'; subst r'.
        assert (Hkeep : rows_at (fst (fst p)) (snd (fst p)) (htxs s') = rows_at (fst (fst p)) (snd (fst p)) (htxs s1)).
        { clear -H Hr Hnotin. revert s1 H. induction ps as [|q ps IHq]; intros s1 H; cbn [fold_left] in H; [inversion H; reflexivity|].
          cbn [rbind] in H. destruct (pay_request c h rates reqs s1 q) as [s2|e|e] eqn:E2;
            [|exfalso; eapply fold_res_fail; exact H|exfalso; eapply fold_res_panic; exact H].
          rewrite (IHq (fun Hin => Hnotin (or_intror Hin)) s2 H).
          destruct (found reqs q) as [rq|] eqn:Eq.
          - destruct (pay_request_step h rates reqs s1 q s2 rq E2 Eq Hr) as (_ & _ & _ & _ & A5 & _). rewrite A5.
            apply rows_at_upd_other; [intros r0; apply set_paid_keys|]. intros Ekk. apply Hnotin. left.
            destruct (fst q) as [x1 x2], (fst p) as [y1 y2]. cbn [fst snd] in Ekk. congruence.
          - unfold pay_request in E2. fold (found reqs q) in E2. rewrite Eq in E2. inversion E2; reflexivity. }
        rewrite Hkeep, A5, rows_at_upd_same by (intros r0; apply set_paid_keys). rewrite P1. reflexivity.
      * exact (I8 p' r' Hin Hf').
    + unfold pay_request in E. fold (found reqs p) in E. rewrite Ef in E. inversion E; subst s1.
      destruct (IH s s' H Hr Hnd' (fun p' r' Hin => Hpr p' r' (or_intror Hin))) as (I1 & I2 & I3 & I4 & I5 & I6 & I7 & I8).
      repeat (split; [assumption|]). split; [intros hs Hhs; apply I5; intros p' Hin; apply Hhs; right; exact Hin|].
      split; [intros g; rewrite (I6 g), sum_over_cons, (pay_delta_none _ _ _ _ _ Ef); lia|].
      split; [intros a t; rewrite (I7 a t), sum_over_cons, (pay_credit_none _ _ _ _ _ _ Ef); lia|].
      intros p' r' [<-|Hin] Hf'; [rewrite Ef in Hf'; discriminate|exact (I8 p' r' Hin Hf')].
Qed.

Lemma rows_at_pend_lt hs txs : forall i j, j < i -> rows_at hs j (pend_rows hs i txs) = [].
Proof.
  induction txs as [|t txs IH]; intros i j Hlt; [reflexivity|]. cbn [pend_rows]. unfold rows_at. cbn [filter].
  destruct (pend_row_keys hs i t) as [-> ->]. destruct (Z.eqb_spec i j); [lia|]. rewrite andb_false_r. apply IH. lia.
Qed.
Lemma reqs_of_batch_spec h rates avgs hs txs : forall i r,
  In r (reqs_of_batch c h rates avgs hs i txs) ->
  fst (pr_txid r) = hs /\ In (pr_tx r) txs /\
  rows_at hs (snd (pr_txid r)) (pend_rows hs i txs) = [pend_row hs (snd (pr_txid r)) (pr_tx r)].
Proof.
  induction txs as [|t txs IH]; intros i r Hin; cbn [reqs_of_batch] in Hin; [contradiction|].
  cbn [pend_rows]. unfold rows_at. cbn [filter]. destruct (pend_row_keys hs i t) as [-> ->]. rewrite Z.eqb_refl. cbn [andb].
  destruct Hin as [<-|Hin]; cbn [pr_txid pr_tx fst snd].
  - rewrite Z.eqb_refl. split; [reflexivity|]. split; [left; reflexivity|]. f_equal. apply (rows_at_pend_lt hs txs (i + 1) i). lia.
  - destruct (IH (i + 1) r Hin) as (E1 & E2 & E3). split; [exact E1|]. split; [right; exact E2|].
    assert (Hge : i + 1 <= snd (pr_txid r)).
    { clear -Hin. revert Hin. generalize (i + 1). induction txs as [|t0 txs IH]; intros j Hin; cbn [reqs_of_batch] in Hin; [contradiction|].
      destruct Hin as [<-|Hin]; [cbn; lia|]. specialize (IH _ Hin). lia. }
    destruct (Z.eqb_spec i (snd (pr_txid r))); [lia|]. exact E3.
Qed.

Lemma payouts_keys bank (rs : requests) : map fst (payouts bank rs) = map fst rs.
Proof.
  unfold payouts. destruct rs as [|r0 rs0] eqn:E; [reflexivity|]. rewrite <- E. clear E.
  destruct (_ && _); [reflexivity|]. cbv zeta. destruct (dust_winner rs) as [w|]; [|apply map_fst_payout].
  etransitivity; [|apply (map_fst_payout rs bank (total_requested_big rs))].
  rewrite (map_map _ fst). apply map_ext. intros r. destruct (txid_eqb _ _); reflexivity.
Qed.
Lemma has_dup_txid_nodup l : has_dup_txid l = false -> NoDup l.
Proof.
  induction l as [|x l IH]; intros H; [constructor|]. cbn in H. apply orb_false_iff in H as [H1 H2]. constructor; [|apply IH; exact H2].
  intros Hin. assert (existsb (txid_eqb x) l = true); [|congruence]. apply existsb_exists. exists x. split; [exact Hin|apply txid_eqb_refl].
Qed.

Definition reqs_of (h : Z) (rates avgs : gmap ticker Z) (batches : list (hash * list tx)) : list peg_req :=
  flat_map (fun b => reqs_of_batch c h rates avgs (fst b) 0 (snd b)) batches.
Definition pays_of (h : Z) (rates avgs : gmap ticker Z) (batches : list (hash * list tx)) (bankamt : Z) : list (txid * Z) :=
  payouts bankamt (map (fun r => (pr_txid r, pr_amt r)) (reqs_of h rates avgs batches)).
(* the batches handed to the second pass: their rows are as inserted and every transaction is a PEG request *)
Definition peg_batch_ready (s : db) (b : hash * list tx) : Prop :=
  rows_of (fst b) (htxs s) = pend_rows (fst b) 0 (snd b) /\ forallb is_peg_request (snd b) = true.

Lemma ready_pristine h rates avgs batches s r :
  Forall (peg_batch_ready s) batches -> In r (reqs_of h rates avgs batches) ->
  pristine s r /\ In (fst (pr_txid r)) (map fst batches).
Proof.
  intros Hb Hin. unfold reqs_of in Hin. apply in_flat_map in Hin as (b & Hbin & Hin).
  rewrite Forall_forall in Hb. destruct (Hb b Hbin) as [R1 R2].
  destruct (reqs_of_batch_spec _ _ _ _ _ _ _ Hin) as (E1 & E2 & E3).
  split; [|rewrite E1; apply in_map; exact Hbin]. split.
  - rewrite E1, rows_at_of, R1. exact E3.
  - rewrite forallb_forall in R2. apply R2; exact E2.
Qed.

(* THE per-writer theorem for the second pass, for any enumeration [order] of the payouts map that neither
   repeats nor invents a transaction id *)
Theorem record_peg_requests_history order h s batches rates avgs bankamt bh s' :
  record_peg_requests_ord c order h s batches rates avgs bankamt bh = Ok s' ->
  (forall t, 0 <= rate_of rates t) ->
  NoDup (map fst (order (pays_of h rates avgs batches bankamt))) ->
  (forall p, In p (order (pays_of h rates avgs batches bankamt)) -> In (fst p) (map pr_txid (reqs_of h rates avgs batches))) ->
  Forall (peg_batch_ready s) batches ->
  let reqs := reqs_of h rates avgs batches in
  let ps := order (pays_of h rates avgs batches bankamt) in
  hist s' = hist s /\ rel s' = rel s /\ holding s' = holding s /\ Db.rates s' = Db.rates s /\
  (* rows of other hashes are untouched *)
  (forall hs, ~ In hs (map fst batches) -> rows_of hs (htxs s') = rows_of hs (htxs s)) /\
  (* exactly what is written: yield into to_amount, the refund as the single output *)
  (forall p r, In p ps -> found reqs p = Some r ->
     rows_at (fst (fst p)) (snd (fst p)) (htxs s') = [paid_row h rates (fst (fst p)) (snd (fst p)) (pr_tx r) (snd p)]) /\
  (* what is credited *)
  (forall a t, get_bal (bal s') a t = get_bal (bal s) a t + sum_over (pay_credit h rates reqs a t) ps) /\
  (* every cell moves by exactly the change of what the rows stand for *)
  (forall burn a t, get_bal (bal s') a t - rows_effect burn a t (htxs s') = get_bal (bal s) a t - rows_effect burn a t (htxs s)) /\
  (* any sum over the table moves by the per-row differences (used for the status-weighted sum of the chain theorem) *)
  (forall g : htx -> Z, sum_over g (htxs s') = sum_over g (htxs s) + sum_over (pay_delta h rates reqs g) ps).
Proof.
  intros H Hr Hnd Hkeys Hb reqs ps. unfold record_peg_requests_ord in H. fold (reqs_of h rates avgs batches) in H. fold reqs in H.
  destruct (has_dup_txid _); [discriminate|]. cbv zeta in H. fold (pays_of h rates avgs batches bankamt) in H. fold ps in H.
  apply rbind_ok in H as (s1 & H1 & H2).
  assert (Hpr : forall p r, In p ps -> found reqs p = Some r -> pristine s r).
  { intros p r _ Hf. unfold found in Hf. apply find_some in Hf as [Hin _]. exact (proj1 (ready_pristine h rates avgs batches s r Hb Hin)). }
  destruct (pay_fold h rates reqs ps s s1 H1 Hr Hnd Hpr) as (I1 & I2 & I3 & I4 & I5 & I6 & I7 & I8).
  assert (Hs' : hist s' = hist s1 /\ rel s' = rel s1 /\ holding s' = holding s1 /\ Db.rates s' = Db.rates s1 /\ htxs s' = htxs s1 /\ bal s' = bal s1).
  { destruct (_ <=? bh); [apply update_bank_shape in H2 as (v & ->); repeat split|inversion H2; subst; repeat split]. }
  destruct Hs' as (U1 & U2 & U3 & U4 & U5 & U6). rewrite U1, U2, U3, U4, U5, U6.
  split; [exact I1|]. split; [exact I2|]. split; [exact I3|]. split; [exact I4|].
  split.
  { intros hs Hhs. apply I5. intros p Hin E. apply Hhs. specialize (Hkeys p Hin). apply in_map_iff in Hkeys as (r & Er & Hrin).
    destruct (ready_pristine h rates avgs batches s r Hb Hrin) as [_ Hin2]. rewrite Er, E in Hin2. exact Hin2. }
  split; [exact I8|]. split; [exact I7|]. split; [|exact I6].
  intros burn a t. rewrite (I7 a t).
  change (rows_effect burn a t (htxs s1)) with (sum_over (fun r => effect_on a t (row_effect burn r)) (htxs s1)).
  change (rows_effect burn a t (htxs s)) with (sum_over (fun r => effect_on a t (row_effect burn r)) (htxs s)).
  rewrite (I6 (fun r => effect_on a t (row_effect burn r))).
  assert (Heq : forall l, (forall p, In p l -> In p ps) ->
            sum_over (pay_credit h rates reqs a t) l = sum_over (pay_delta h rates reqs (fun r => effect_on a t (row_effect burn r))) l).
  { induction l as [|p l IHl]; intros Hl; [reflexivity|]. rewrite !sum_over_cons, IHl by (intros; apply Hl; right; assumption). f_equal.
    destruct (found reqs p) as [r|] eqn:Ef; [|rewrite (pay_credit_none _ _ _ _ _ _ Ef), (pay_delta_none _ _ _ _ _ Ef); reflexivity].
    rewrite (pay_credit_some _ _ _ _ _ _ _ Ef), (pay_delta_some _ _ _ _ _ _ Ef).
    destruct (Hpr p r (Hl p (or_introl eq_refl)) Ef) as [_ Hq]. pose proof (is_peg_request_is_conversion _ Hq) as Ec.
    rewrite (row_effect_paid _ _ _ _ _ _ _ Ec), (row_effect_pend_conv _ _ _ _ Ec), !effect_on_cons, !effect_on_nil. cbn [fst snd].
    unfold ticker, addr in *. destruct ((tx_addr (pr_tx r) =? a) && (tx_type (pr_tx r) =? t)), ((tx_addr (pr_tx r) =? a) && (tx_conv (pr_tx r) =? t)); lia. }
  rewrite (Heq ps (fun p Hp => Hp)). lia.
Qed.

(* the model's own enumeration (identity): the two conditions on [order] hold by themselves *)
Corollary record_peg_requests_history_id h s batches rates avgs bankamt bh s' :
  record_peg_requests c h s batches rates avgs bankamt bh = Ok s' ->
  (forall t, 0 <= rate_of rates t) -> Forall (peg_batch_ready s) batches ->
  hist s' = hist s /\ rel s' = rel s /\ holding s' = holding s /\ Db.rates s' = Db.rates s /\
  (forall hs, ~ In hs (map fst batches) -> rows_of hs (htxs s') = rows_of hs (htxs s)) /\
  (forall burn a t, get_bal (bal s') a t - rows_effect burn a t (htxs s') = get_bal (bal s) a t - rows_effect burn a t (htxs s)) /\
  (forall g : htx -> Z, sum_over g (htxs s') = sum_over g (htxs s) +
                        sum_over (pay_delta h rates (reqs_of h rates avgs batches) g) (pays_of h rates avgs batches bankamt)).
Proof.
  intros H Hr Hb. unfold record_peg_requests in H.
  assert (Hk : map fst (pays_of h rates avgs batches bankamt) = map pr_txid (reqs_of h rates avgs batches)).
  { unfold pays_of. rewrite payouts_keys, map_map. reflexivity. }
  assert (Hnd : NoDup (map fst (pays_of h rates avgs batches bankamt))).
  { rewrite Hk. apply has_dup_txid_nodup. unfold record_peg_requests_ord in H. fold (reqs_of h rates avgs batches) in H.
    destruct (has_dup_txid _); [discriminate|reflexivity]. }
  destruct (record_peg_requests_history (fun l => l) h s batches rates avgs bankamt bh s' H Hr Hnd) as (R1 & R2 & R3 & R4 & R5 & _ & _ & R8 & R9).
  - intros p Hin. rewrite <- Hk. apply in_map; exact Hin.
  - exact Hb.
  - repeat (split; [assumption|]). exact R9.
Qed.
End PartB.

Section PartA2.
Variable c : cfg.
(* recordBatch from the rows exactly as insert_history leaves them, deferred PEG requests allowed *)
Theorem record_batch_history2 h hs rates avgs txs s s' :
  record_batch c h hs rates avgs txs s = Ok s' ->
  convs_fit c h rates avgs txs = true ->
  rows_of hs (htxs s) = map fst (history_rows_of hs txs) ->
  rows_of hs (htxs s') = exec_rows2 c h rates avgs hs 0 txs /\
  rows_not hs (htxs s') = rows_not hs (htxs s) /\
  hist s' = match txs with [] => hist s | _ => mark_exec hs h (hist s) end /\
  (forall a t, get_bal (bal s') a t =
               get_bal (bal s) a t + rows_effect (burn_addr c h) a t (rows_of hs (htxs s'))).
Proof.
  intros H Hfit Hrows. rewrite history_rows_of_pend in Hrows.
  destruct (record_txs_history2 c h hs rates avgs txs 0 s s' [] H Hfit Hrows (Forall_nil _)) as (R1 & R2 & R3 & R4).
  cbn [app] in R1. rewrite R1. auto.
Qed.
(* a pure PEG batch in the bank era: only debits, the rows stay as inserted *)
Corollary record_batch_history_pure_peg h hs rates avgs txs s s' :
  record_batch c h hs rates avgs txs s = Ok s' ->
  c_PegnetConversionLimitActivation c <= h -> forallb is_peg_request txs = true ->
  convs_fit c h rates avgs txs = true ->
  rows_of hs (htxs s) = map fst (history_rows_of hs txs) ->
  rows_of hs (htxs s') = pend_rows hs 0 txs /\
  (forall a t, get_bal (bal s') a t = get_bal (bal s) a t + rows_effect (burn_addr c h) a t (pend_rows hs 0 txs)).
Proof.
  intros H Hh Hp Hfit Hrows. destruct (record_batch_history2 h hs rates avgs txs s s' H Hfit Hrows) as (R1 & _ & _ & R4).
  assert (E : exec_rows2 c h rates avgs hs 0 txs = pend_rows hs 0 txs).
  { apply exec_rows2_all_deferred. apply forallb_forall. intros t Ht. rewrite forallb_forall in Hp. unfold deferred.
    rewrite (Hp t Ht). destruct (Z.leb_spec (c_PegnetConversionLimitActivation c) h); [reflexivity|lia]. }
  rewrite E in R1. split; [exact R1|]. intros a t. rewrite (R4 a t), R1. reflexivity.
Qed.
End PartA2.

(* ==== Part B at the level of the accounting predicate ============================================================ *)
Section PartB2.
Variable c : cfg.

Lemma upd_at_hashes hs idx f l : (forall r, ht_hash (f r) = ht_hash r) -> map ht_hash (upd_at hs idx f l) = map ht_hash l.
Proof.
  intros Hf. unfold upd_at. rewrite map_map. apply map_ext. intros r. destruct (_ && _); [apply Hf|reflexivity].
Qed.
Lemma pay_request_hashes h rates reqs s p s' :
  pay_request c h rates reqs s p = Ok s' -> map ht_hash (htxs s') = map ht_hash (htxs s).
Proof.
  unfold pay_request. destruct (find _ reqs) as [r|]; [|intros H; inversion H; reflexivity]. cbv zeta. intros H.
  apply rbind_ok in H as (s2 & H1 & H2).
  destruct (add_to_balance_tables _ _ _ _ _ H1) as (A1 & _). destruct (add_to_balance_tables _ _ _ _ _ H2) as (B1 & _).
  rewrite B1, A1, htxs_set_peg. apply upd_at_hashes. reflexivity.
Qed.
Lemma record_peg_requests_hashes h s batches rates avgs bankamt bh s' :
  record_peg_requests c h s batches rates avgs bankamt bh = Ok s' -> map ht_hash (htxs s') = map ht_hash (htxs s).
Proof.
  unfold record_peg_requests, record_peg_requests_ord. destruct (has_dup_txid _); [discriminate|]. cbv zeta. intros H.
  apply rbind_ok in H as (s1 & H1 & H2).
  assert (E1 : map ht_hash (htxs s1) = map ht_hash (htxs s)).
  { refine (fold_res_inv (fun x => map ht_hash (htxs x) = map ht_hash (htxs s)) _ _ _ s s1 eq_refl H1).
    intros s0 p s2 Hp Hs. rewrite (pay_request_hashes _ _ _ _ _ _ Hs). exact Hp. }
  destruct (_ <=? bh); [apply update_bank_shape in H2 as (v & ->); exact E1|inversion H2; subst; exact E1].
Qed.

(* the second pass keeps the accounting predicate: the batches it is handed were executed by this block (their
   status counts as executed), their rows are as inserted, every transaction is a PEG request *)
Theorem hist_ok_record_peg_requests h s batches rates avgs bankamt bh s' :
  record_peg_requests c h s batches rates avgs bankamt bh = Ok s' ->
  (forall t, 0 <= rate_of rates t) ->
  Forall (peg_batch_ready s) batches ->
  Forall (fun b => 0 < exec_of (hist s) (fst b)) batches ->
  hist_ok c s -> hist_ok c s'.
Proof.
  intros H Hr Hb Hex [Hacc Hrb].
  pose proof (record_peg_requests_hashes _ _ _ _ _ _ _ _ H) as Hh.
  unfold record_peg_requests in H.
  assert (Hk : map fst (pays_of c h rates avgs batches bankamt) = map pr_txid (reqs_of c h rates avgs batches)).
  { unfold pays_of. rewrite payouts_keys, map_map. reflexivity. }
  assert (Hnd : NoDup (map fst (pays_of c h rates avgs batches bankamt))).
  { rewrite Hk. apply has_dup_txid_nodup. unfold record_peg_requests_ord in H. fold (reqs_of c h rates avgs batches) in H.
    destruct (has_dup_txid _); [discriminate|reflexivity]. }
  assert (Hkeys : forall p, In p (pays_of c h rates avgs batches bankamt) -> In (fst p) (map pr_txid (reqs_of c h rates avgs batches)))
    by (intros p Hin; rewrite <- Hk; apply in_map; exact Hin).
  destruct (record_peg_requests_history c (fun l => l) h s batches rates avgs bankamt bh s' H Hr Hnd Hkeys Hb)
    as (R1 & _ & _ & _ & _ & _ & R7 & _ & R9).
  set (reqs := reqs_of c h rates avgs batches) in *. set (ps := pays_of c h rates avgs batches bankamt) in *.
  split.
  - intros a t Hsp. unfold hist_sum. rewrite R1, (R7 a t), (Hacc a t Hsp). unfold hist_sum.
    change (sum_counted c (hist s) a t (htxs s')) with (sum_over (counted c (hist s) a t) (htxs s')).
    change (sum_counted c (hist s) a t (htxs s)) with (sum_over (counted c (hist s) a t) (htxs s)).
    rewrite (R9 (counted c (hist s) a t)). f_equal.
    assert (Heq : forall l, (forall p, In p l -> In p ps) ->
              sum_over (pay_credit c h rates reqs a t) l = sum_over (pay_delta c h rates reqs (counted c (hist s) a t)) l).
    { induction l as [|p l IHl]; intros Hl; [reflexivity|]. rewrite !sum_over_cons, IHl by (intros; apply Hl; right; assumption). f_equal.
      destruct (found reqs p) as [r|] eqn:Ef; [|rewrite (pay_credit_none _ _ _ _ _ _ _ Ef), (pay_delta_none _ _ _ _ _ _ Ef); reflexivity].
      rewrite (pay_credit_some _ _ _ _ _ _ _ _ Ef), (pay_delta_some _ _ _ _ _ _ _ Ef).
      pose proof Ef as Ef'. unfold found in Ef'. apply find_some in Ef' as [Hrin _].
      destruct (ready_pristine c h rates avgs batches s r Hb Hrin) as [[_ Hq] Hbin]. pose proof (is_peg_request_is_conversion _ Hq) as Ec.
      rewrite (found_key _ _ _ Ef) in Hbin.
      assert (Hpos : 0 < exec_of (hist s) (fst (fst p))).
      { apply in_map_iff in Hbin as (b & Eb & Hbb). rewrite Forall_forall in Hex. rewrite <- Eb. apply Hex; exact Hbb. }
      unfold counted. unfold paid_row. cbn [set_paid ht_hash]. destruct (pend_row_keys (fst (fst p)) (snd (fst p)) (pr_tx r)) as [-> _].
      destruct (Z.ltb_spec 0 (exec_of (hist s) (fst (fst p)))); [|lia].
      fold (paid_row c h rates (fst (fst p)) (snd (fst p)) (pr_tx r) (snd p)).
      rewrite (row_effect_paid _ _ _ _ _ _ _ _ Ec), (row_effect_pend_conv _ _ _ _ Ec), !effect_on_cons, !effect_on_nil. cbn [fst snd].
      unfold ticker, addr in *. destruct ((tx_addr (pr_tx r) =? a) && (tx_type (pr_tx r) =? t)), ((tx_addr (pr_tx r) =? a) && (tx_conv (pr_tx r) =? t)); lia. }
    exact (Heq ps (fun p Hp => Hp)).
  - unfold rows_have_batch in *. rewrite R1.
    assert (Gen : forall l1 l2 : list htx, map ht_hash l1 = map ht_hash l2 ->
              Forall (fun r => has_batch (hist s) (ht_hash r) = true) l2 -> Forall (fun r => has_batch (hist s) (ht_hash r) = true) l1).
    { induction l1 as [|x l1 IH]; intros [|y l2] E F; try discriminate; [constructor|]. cbn [map] in E. inversion E as [[E1 E2]]. inversion F; subst.
      constructor; [rewrite E1; assumption|eapply IH; eauto]. }
    exact (Gen _ _ Hh Hrb).
Qed.

(* the first pass keeps the accounting predicate as well, deferred PEG requests included: an executed batch whose
   PEG requests are deferred stands, until the second pass, for its debits alone *)
Theorem hist_ok_apply_batch2 cur hs rates avgs txs s s' :
  0 < cur ->
  apply_batch c cur s hs txs rates avgs = BApplied s' ->
  convs_fit c cur rates avgs txs = true ->
  rows_of hs (htxs s) = map fst (history_rows_of hs txs) ->
  exec_of (hist s) hs <= 0 ->
  hist_ok c s -> hist_ok c s'.
Proof.
  intros Hcur H Hfit Hrows Hle Hok. apply apply_batch_applied_is_record in H.
  destruct (record_batch_history2 c cur hs rates avgs txs s s' H Hfit Hrows) as (R1 & R2 & R3 & R4).
  destruct txs as [|t0 txs0].
  - cbn in H. inversion H; subst. exact Hok.
  - assert (Hb : has_batch (hist s) hs = true).
    { destruct Hok as [_ Hrb]. unfold rows_have_batch in Hrb. rewrite history_rows_of_pend in Hrows. cbn [pend_rows] in Hrows.
      assert (Hin : In (pend_row hs 0 t0) (rows_of hs (htxs s))) by (rewrite Hrows; left; reflexivity).
      apply filter_In in Hin as [Hin Hhash]. rewrite Forall_forall in Hrb. specialize (Hrb _ Hin).
      apply Z.eqb_eq in Hhash. rewrite Hhash in Hrb. exact Hrb. }
    refine (hist_ok_mark_step c s s' hs cur R3 R2 Hle (fun _ => Hb) _ Hok).
    intros a t. destruct (Z.ltb_spec 0 cur); [|lia]. apply R4.
Qed.
End PartB2.

(* ==== non-vacuity on a concrete bank-era state (ex_cfg: PEG limit from 200, V4 from 300, 2.0 from 400) ========== *)
Definition ex_pegreq (hs : hash) (amts : list Z) : entry :=
  {| e_hash := hs; e_ts := 2000;
     e_batch := Some (map (fun a => {| tx_addr := alice; tx_type := PTickerFCT; tx_amt := a; tx_transfers := []; tx_conv := PTickerPEG |}) amts);
     e_rcde := false |}.
Definition bx_tx : tx := {| tx_addr := alice; tx_type := PTickerFCT; tx_amt := 20; tx_transfers := []; tx_conv := PTickerPEG |}.
Definition bx_txs : list tx := [bx_tx].
(* alice burns 100 FCT (101); her request 20 pFCT -> PEG arrives at 250 and waits; the rated block 251 executes the batch
   (first pass: debit only) and then pays it from a bank of 30 PEG: 40 requested, 30 paid, 10 PEG = 5 pFCT refunded *)
Definition bx_s1 : db := ok_or genesis (apply_factoid_block 101 genesis [ex_burn 501 100]).
Definition bx_s2 : db := ok_or genesis (apply_tx_block ex_cfg 250 bx_s1 [ex_pegreq 701 [20]]).
Definition bx_s3 : db := ok_or genesis (record_batch ex_cfg 251 701 ex_rates ex_rates bx_txs bx_s2).
Definition bx_s4 : db := ok_or genesis (record_peg_requests ex_cfg 251 bx_s3 [(701, bx_txs)] ex_rates ex_rates 30 250).

Example record_batch_history2_hyps :
  record_batch ex_cfg 251 701 ex_rates ex_rates bx_txs bx_s2 = Ok bx_s3 /\
  c_PegnetConversionLimitActivation ex_cfg <= 251 /\ forallb is_peg_request bx_txs = true /\
  convs_fit ex_cfg 251 ex_rates ex_rates bx_txs = true /\
  rows_of 701 (htxs bx_s2) = map fst (history_rows_of 701 bx_txs) /\
  (* the first pass: the row is untouched, alice is debited, the batch is marked executed *)
  rows_of 701 (htxs bx_s3) = pend_rows 701 0 bx_txs /\
  get_bal (bal bx_s2) alice PTickerFCT = 100 /\ get_bal (bal bx_s3) alice PTickerFCT = 80 /\
  rows_effect 0 alice PTickerFCT (rows_of 701 (htxs bx_s3)) = -20 /\
  status_of bx_s2 701 = [0] /\ status_of bx_s3 701 = [251].
Proof. vm_compute. repeat split; try reflexivity. discriminate. Qed.

Example record_peg_requests_history_hyps :
  record_peg_requests ex_cfg 251 bx_s3 [(701, bx_txs)] ex_rates ex_rates 30 250 = Ok bx_s4 /\
  rows_of 701 (htxs bx_s3) = pend_rows 701 0 bx_txs /\ forallb is_peg_request bx_txs = true /\
  (* the second pass on this instance: yield 30 into to_amount, refund 5 as the single output, both credited *)
  rows_of 701 (htxs bx_s4) = [paid_row ex_cfg 251 ex_rates 701 0 bx_tx 30] /\
  map ht_to_amount (rows_of 701 (htxs bx_s4)) = [30] /\ map ht_outputs (rows_of 701 (htxs bx_s4)) = [[(alice, 5)]] /\
  get_bal (bal bx_s4) alice PTickerPEG = 30 /\ get_bal (bal bx_s4) alice PTickerFCT = 85 /\
  rows_effect 0 alice PTickerPEG (rows_of 701 (htxs bx_s4)) = 30 /\
  rows_effect 0 alice PTickerFCT (rows_of 701 (htxs bx_s4)) = -15.
Proof. vm_compute. repeat split; reflexivity. Qed.
Example record_peg_requests_ready : Forall (peg_batch_ready bx_s3) [(701, bx_txs)] /\ (forall t, 0 <= rate_of ex_rates t).
Proof.
  split; [constructor; [split; vm_compute; reflexivity|constructor]|].
  intros t. unfold rate_of, ex_rates. 
  destruct (Z.eq_dec t PTickerPEG) as [->|N1]; [vm_compute; discriminate|]. rewrite lookup_insert_ne by auto.
  destruct (Z.eq_dec t PTickerUSD) as [->|N2]; [vm_compute; discriminate|]. rewrite lookup_insert_ne by auto.
  destruct (Z.eq_dec t PTickerFCT) as [->|N3]; [vm_compute; discriminate|]. rewrite lookup_insert_ne by auto.
  rewrite lookup_empty. cbn. lia.
Qed.

(* ==== why "pure PEG batch" is not enough: a Convert failure inside the batch ===================================
   applyTransactionBatch returns nil as soon as one Convert fails (nothing is written), the caller takes nil for
   "accepted" and, in the bank era, appends the batch to pegConversions; recordPegnetRequests then pays EVERY request
   of the batch.  Witness: alice holds 9e18 pFCT; her batch asks 20 pFCT -> PEG and 9e18 pFCT -> PEG (the second one
   overflows int64).  Nothing is debited, the batch stays pending (status 0), and alice is credited 40 PEG. *)
Definition wx_s1 : db := ok_or genesis (apply_factoid_block 101 genesis [ex_burn 501 9000000000000000000]).
Definition wx_s2 : db := ok_or genesis (apply_tx_block ex_cfg 250 wx_s1 [ex_pegreq 702 [20; 9000000000000000000]]).
Definition wx_s3 : db := ok_or genesis (apply_holding ex_cfg wx_s2 251 wx_s2 ex_rates ex_rates).
Example bank_pays_a_dropped_peg_batch :
  apply_tx_block ex_cfg 250 wx_s1 [ex_pegreq 702 [20; 9000000000000000000]] = Ok wx_s2 /\
  apply_holding ex_cfg wx_s2 251 wx_s2 ex_rates ex_rates = Ok wx_s3 /\
  hist_ok ex_cfg wx_s2 /\
  status_of wx_s3 702 = [0] /\
  get_bal (bal wx_s2) alice PTickerFCT = 9000000000000000000 /\ get_bal (bal wx_s3) alice PTickerFCT = 9000000000000000000 /\
  get_bal (bal wx_s2) alice PTickerPEG = 0 /\ get_bal (bal wx_s3) alice PTickerPEG = 40 /\
  hist_sum ex_cfg wx_s3 alice PTickerPEG = 0 /\ ~ accounts ex_cfg wx_s3.
Proof.
  assert (E1 : apply_factoid_block 101 genesis [ex_burn 501 9000000000000000000] = Ok wx_s1) by (vm_compute; reflexivity).
  assert (E2 : apply_tx_block ex_cfg 250 wx_s1 [ex_pegreq 702 [20; 9000000000000000000]] = Ok wx_s2) by (vm_compute; reflexivity).
  assert (E3 : apply_holding ex_cfg wx_s2 251 wx_s2 ex_rates ex_rates = Ok wx_s3) by (vm_compute; reflexivity).
  assert (H1 : hist_ok ex_cfg wx_s1).
  { refine (hist_ok_apply_factoid_block ex_cfg 101 genesis _ wx_s1 E1 _ (hist_ok_genesis ex_cfg)).
    apply Forall_forall. intros r [<-|[]]. vm_compute. reflexivity. }
  assert (H2 : hist_ok ex_cfg wx_s2) by (refine (hist_ok_apply_tx_block ex_cfg 250 wx_s1 _ wx_s2 _ E2 H1); lia).
  assert (B : get_bal (bal wx_s3) alice PTickerPEG = 40) by (vm_compute; reflexivity).
  assert (S : hist_sum ex_cfg wx_s3 alice PTickerPEG = 0) by (vm_compute; reflexivity).
  split; [exact E2|]. split; [exact E3|]. split; [exact H2|].
  do 4 (split; [vm_compute; reflexivity|]). split; [exact B|]. split; [exact S|].
  intros A. assert (Hs : special_addr alice = false) by (vm_compute; reflexivity).
  specialize (A alice PTickerPEG Hs). rewrite B, S in A. discriminate.
Qed.

(* the two passes at the level of the accounting predicate, on the same concrete state *)
Example bank_era_hist_ok_example :
  hist_ok ex_cfg bx_s2 /\ hist_ok ex_cfg bx_s3 /\ hist_ok ex_cfg bx_s4 /\
  get_bal (bal bx_s3) alice PTickerFCT = 80 /\ hist_sum ex_cfg bx_s3 alice PTickerFCT = 80 /\
  get_bal (bal bx_s4) alice PTickerFCT = 85 /\ hist_sum ex_cfg bx_s4 alice PTickerFCT = 85 /\
  get_bal (bal bx_s4) alice PTickerPEG = 30 /\ hist_sum ex_cfg bx_s4 alice PTickerPEG = 30.
Proof.
  assert (E1 : apply_factoid_block 101 genesis [ex_burn 501 100] = Ok bx_s1) by (vm_compute; reflexivity).
  assert (E2 : apply_tx_block ex_cfg 250 bx_s1 [ex_pegreq 701 [20]] = Ok bx_s2) by (vm_compute; reflexivity).
  assert (E3 : apply_batch ex_cfg 251 bx_s2 701 bx_txs ex_rates ex_rates = BApplied bx_s3) by (vm_compute; reflexivity).
  assert (E4 : record_peg_requests ex_cfg 251 bx_s3 [(701, bx_txs)] ex_rates ex_rates 30 250 = Ok bx_s4) by (vm_compute; reflexivity).
  assert (H1 : hist_ok ex_cfg bx_s1).
  { refine (hist_ok_apply_factoid_block ex_cfg 101 genesis _ bx_s1 E1 _ (hist_ok_genesis ex_cfg)).
    apply Forall_forall. intros r [<-|[]]. vm_compute. reflexivity. }
  assert (H2 : hist_ok ex_cfg bx_s2) by (refine (hist_ok_apply_tx_block ex_cfg 250 bx_s1 _ bx_s2 _ E2 H1); lia).
  assert (H3 : hist_ok ex_cfg bx_s3).
  { refine (hist_ok_apply_batch2 ex_cfg 251 701 ex_rates ex_rates bx_txs bx_s2 bx_s3 _ E3 _ _ _ H2); [lia| | |]; vm_compute; try reflexivity. discriminate. }
  assert (H4 : hist_ok ex_cfg bx_s4).
  { destruct record_peg_requests_ready as [Rd Rn].
    refine (hist_ok_record_peg_requests ex_cfg 251 bx_s3 _ ex_rates ex_rates 30 250 bx_s4 E4 Rn Rd _ H3).
    constructor; [vm_compute; reflexivity|constructor]. }
  split; [exact H2|]. split; [exact H3|]. split; [exact H4|].
  repeat match goal with |- _ /\ _ => split; [vm_compute; reflexivity|] end. vm_compute; reflexivity.
Qed.

Print Assumptions record_txs_history2.
Print Assumptions record_batch_history2.
Print Assumptions record_peg_requests_history.
Print Assumptions record_peg_requests_history_id.
Print Assumptions hist_ok_record_peg_requests.
Print Assumptions hist_ok_apply_batch2.
