(* Lemmas/TotalityInvariant.v — [hist_closed] is an invariant of the whole block function, hence of
   every state reached by replay from the fresh database: the invariant under which the totality
   theorems of TotalityLemmas.v / TotalityHolding.v hold is not an assumption about the state.

   Every insert into pn_history_transaction in the model (an arriving batch, a factoid burn, a
   miner / staker payout, the snapshot payouts, a developer payout, the zeroing coinbase) comes after
   the insert of the pn_history_txbatch row of the same hash; a held batch is inserted after its
   history rows; nothing is ever deleted from pn_history_txbatch. *)
From Model Require Import Block Obs.
From Lemmas Require Import ArithLemmas DbLemmas LedgerLemmas BlockLemmas FrameLemmas ChainLemmas TotalityLemmas.
From Gen Require Import Consts.
From Coq Require Import Lia ZifyBool.
Open Scope Z_scope.
Open Scope list_scope.

(* ---- operations that leave the three key lists alone (preservation scheme with pi := keys, R := eq) ------------- *)
Lemma keys_add s a t v s' : add_to_balance s a t v = Ok s' -> keys s' = keys s.
Proof. intros H. apply add_to_balance_ok in H as (_ & _ & ->). reflexivity. Qed.
Lemma keys_sub_ignoring s a t v s' : sub_ignoring_txerr s a t v = Ok s' -> keys s' = keys s.
Proof.
  unfold sub_ignoring_txerr. destruct (sub_from_balance s a t v) eqn:E; intros H; inversion H; subst; [|reflexivity].
  apply sub_from_balance_ok in E as (_ & _ & _ & ->). reflexivity.
Qed.
Lemma keys_apply_batch c h s hs txs rates avgs s' : apply_batch c h s hs txs rates avgs = BApplied s' -> keys s' = keys s.
Proof.
  intros H. symmetry. refine (pr_apply_batch keys eq _ _ _ _ c h s hs txs rates avgs s' H); intros;
    [reflexivity|symmetry; apply keys_insert_relation|symmetry; apply keys_set_executed|symmetry; apply keys_set_to_amount].
Qed.
Lemma keys_apply_holding c cm cur s rates avgs s' : apply_holding c cm cur s rates avgs = Ok s' -> keys s' = keys s.
Proof.
  intros H. symmetry. refine (pr_apply_holding keys eq _ _ _ _ _ _ c cm cur s rates avgs s' H); intros;
    [reflexivity|symmetry; apply keys_insert_relation|symmetry; apply keys_set_executed|symmetry; apply keys_set_to_amount
    |symmetry; apply keys_set_peg_request_amounts|untouched].
Qed.
Lemma keys_mint_tokens s s' : mint_tokens s = Ok s' -> keys s' = keys s.
Proof. intros H. symmetry. refine (pr_mint_tokens keys eq _ s s' H). intros; reflexivity. Qed.
Lemma keys_nullify_minted cm s s' : nullify_minted cm s = Ok s' -> keys s' = keys s.
Proof. intros H. symmetry. refine (pr_nullify_minted keys eq _ cm s s' H). intros; reflexivity. Qed.
Lemma keys_insert_grade h s v s' : insert_grade h s v = Ok s' -> keys s' = keys s.
Proof. intros H. apply insert_grade_shape in H as (? & ? & ->). reflexivity. Qed.
Lemma keys_insert_rates cm h s a ph s' : insert_rates cm h s a ph = Ok s' -> keys s' = keys s.
Proof. intros H. apply insert_rates_shape in H as (_ & ? & ->). reflexivity. Qed.
Lemma keys_insert_bank s h a s' : insert_bank s h a = Ok s' -> keys s' = keys s.
Proof. intros H. apply insert_bank_shape in H as (? & ->). reflexivity. Qed.
Lemma keys_insert_synced s h s' : insert_synced s h = Ok s' -> keys s' = keys s.
Proof. intros H. apply insert_synced_shape in H as (_ & ->). reflexivity. Qed.

(* ---- the two inserts ------------------------------------------------------------------------------------------------ *)
Lemma closed_hbatch s r s' :
  insert_hbatch s r = Ok s' -> hist_closed s -> hist_closed s' /\ In (hb_hash r) (hist_keys s').
Proof.
  intros H [C1 C2]. apply insert_hbatch_shape in H. subst s'.
  unfold hist_closed, incl, hist_keys, htx_keys, hold_keys in *. cbn [hist htxs holding set_hist]. rewrite map_app.
  split; [split; intros x Hx; apply in_or_app; left; auto|]. apply in_or_app. right. left. reflexivity.
Qed.
Lemma closed_htx s r lk s' :
  insert_htx s r lk = Ok s' -> In (ht_hash r) (hist_keys s) -> hist_closed s -> hist_closed s' /\ hist_keys s' = hist_keys s.
Proof.
  unfold insert_htx. destruct (htx_has _ _ _); [discriminate|]. intros H Hin [C1 C2]. inversion H; subst s'. clear H.
  unfold hist_closed, incl, hist_keys, htx_keys, hold_keys in *. cbn [hist htxs holding set_htxs]. rewrite map_app.
  split; [|reflexivity]. split; [|exact C2].
  intros x Hx. apply in_app_or in Hx as [Hx|[<-|[]]]; auto.
Qed.
(* a batch row followed by a transaction row of the same hash *)
Lemma closed_pair s r s2 r' lk s3 :
  hist_closed s -> insert_hbatch s r = Ok s2 -> insert_htx s2 r' lk = Ok s3 -> ht_hash r' = hb_hash r -> hist_closed s3.
Proof.
  intros Hc H1 H2 E. destruct (closed_hbatch _ _ _ H1 Hc) as [Hc2 Hin].
  rewrite <- E in Hin. exact (proj1 (closed_htx _ _ _ _ H2 Hin Hc2)).
Qed.

Section WithCfg.
Variable c : cfg.

(* ---- the transaction block -------------------------------------------------------------------------------------------- *)
Lemma apply_entry_closed h s order e s' : hist_closed s -> apply_entry c h s order e = Ok s' -> hist_closed s'.
Proof.
  intros Hcl H. unfold apply_entry in H.
  destruct (entry_valid_at c e h) as [txs|]; [|inversion H; subst; exact Hcl].
  destruct (is_replay s (e_hash e)); [inversion H; subst; exact Hcl|].
  destruct (hist_has s (e_hash e)) eqn:Eh; [inversion H; subst; exact Hcl|].
  apply rbind_ok in H as (s1 & H1 & H2).
  destruct (insert_history_total s e order h txs Hcl Eh) as (s1' & I1 & I2 & I3 & I4 & _).
  rewrite H1 in I1. inversion I1; subst s1'. clear I1.
  assert (Hcl1 : hist_closed s1) by (eapply hist_closed_after_history; eauto).
  destruct (has_conversions txs).
  - unfold insert_holding in H2. destruct (holding_has s1 (e_hash e)); [discriminate|]. inversion H2; subst s'. clear H2.
    destruct Hcl1 as [C1 C2]. unfold hist_closed, incl, hist_keys, htx_keys, hold_keys in *. cbn [hist htxs holding set_holding].
    rewrite map_app. split; [exact C1|]. intros x Hx. apply in_app_or in Hx as [Hx|[<-|[]]]; [apply C2; exact Hx|].
    cbn [h_entry]. unfold hist_keys in I2. rewrite I2. apply in_or_app. right. left. reflexivity.
  - destruct (apply_batch c h s1 (e_hash e) txs ∅ ∅) as [s2|code| |code] eqn:Eb.
    + inversion H2; subst. eapply hist_closed_keys; [eapply keys_apply_batch; exact Eb|exact Hcl1].
    + destruct (code =? -1); inversion H2; subst. eapply hist_closed_keys; [apply keys_set_executed|exact Hcl1].
    + inversion H2; subst; exact Hcl1.
    + discriminate.
Qed.

Lemma apply_tx_block_closed h s es s' : hist_closed s -> apply_tx_block c h s es = Ok s' -> hist_closed s'.
Proof.
  unfold apply_tx_block. generalize 0 as i. revert s.
  induction es as [|e es IH]; intros s i Hn H; cbn [fold_left snd] in H.
  - inversion H; subst; exact Hn.
  - cbn [rbind] in H. destruct (apply_entry c h s i e) as [s1|code|code] eqn:E.
    + eapply IH; [|exact H]. eapply apply_entry_closed; eauto.
    + exfalso. clear -H. revert H. generalize (i + 1). induction es as [|y l IHl]; intros j H; cbn in H; [discriminate|eauto].
    + exfalso. clear -H. revert H. generalize (i + 1). induction es as [|y l IHl]; intros j H; cbn in H; [discriminate|eauto].
Qed.

(* ---- burns, payouts ------------------------------------------------------------------------------------------------------ *)
Lemma apply_factoid_block_closed h s fs s' : hist_closed s -> apply_factoid_block h s fs = Ok s' -> hist_closed s'.
Proof.
  intros Hn H. unfold apply_factoid_block in H.
  refine (fold_res_inv hist_closed (fun s' f => match is_burn f with None => Ok s' | Some (a, v) => _ end) fs _ s s' Hn H).
  intros s0 f s2 Hn0 Hs. destruct (is_burn f) as [[a v]|] eqn:Eb; [|inversion Hs; subst; exact Hn0].
  apply rbind_ok in Hs as (s3 & H1 & Hs). apply rbind_ok in Hs as (s4 & H2 & H3).
  eapply closed_pair; [|exact H2|exact H3|reflexivity]. eapply hist_closed_keys; [eapply keys_add; exact H1|exact Hn0].
Qed.

Lemma pay_winners_closed s ts ws s' : hist_closed s -> pay_winners s ts ws = Ok s' -> hist_closed s'.
Proof.
  intros Hn H. unfold pay_winners in H.
  refine (fold_res_inv hist_closed (fun s' w => match w_addr w with None => Ok s' | Some a => _ end) ws _ s s' Hn H).
  intros s0 w s2 Hn0 Hs. destruct (w_addr w) as [a|]; [|inversion Hs; subst; exact Hn0].
  apply rbind_ok in Hs as (s3 & H1 & Hs). apply rbind_ok in Hs as (s4 & H2 & H3).
  eapply closed_pair; [|exact H2|exact H3|reflexivity]. eapply hist_closed_keys; [eapply keys_add; exact H1|exact Hn0].
Qed.

Lemma snapshot_payouts_closed h ts rates s s' : hist_closed s -> snapshot_payouts c h ts rates s = Ok s' -> hist_closed s'.
Proof.
  intros Hn H. unfold snapshot_payouts in H. cbv zeta in H.
  destruct (existsb _ _); [discriminate|]. destruct (existsb _ _); [discriminate|].
  set (s1 := set_snaps s (bal s) (snap_cur s)) in *.
  assert (Hn1 : hist_closed s1) by exact Hn.
  match type of H with match ?l with [] => _ | _ => _ end = _ => destruct l as [|x0 lst0] end;
    [inversion H; subst; exact Hn1|].
  apply rbind_ok in H as (s2 & H1 & H). apply rbind_ok in H as (s3 & H2 & H3).
  destruct (closed_hbatch _ _ _ H1 Hn1) as [Hn2 Hin2]. cbn [hb_hash] in Hin2.
  assert (Hn3 : hist_closed s3 /\ In (mock_hash h) (hist_keys s3)).
  { refine (fold_res_inv (fun x => hist_closed x /\ In (mock_hash h) (hist_keys x)) _ _ _ s2 s3 (conj Hn2 Hin2) H2).
    intros s0 p s4 [Hc0 Hi0] Hs. destruct (two63 <=? snd p); [discriminate|].
    destruct (closed_htx _ _ _ _ Hs Hi0 Hc0) as [Hc4 E4]. split; [exact Hc4|rewrite E4; exact Hi0]. }
  refine (fold_res_inv hist_closed _ _ _ s3 s' (proj1 Hn3) H3).
  intros s0 p s4 Hc0 Hs. eapply hist_closed_keys; [eapply keys_add; exact Hs|exact Hc0].
Qed.

Lemma developers_payouts_closed h ts s s' : hist_closed s -> fst (developers_payouts c h ts s) = Ok s' -> hist_closed s'.
Proof.
  unfold developers_payouts. cbv zeta. generalize dev_rewards as l. intros l Hn.
  set (step := fun (acc : Z * Z * (res db * db)) (d : Z * Z * Z * Z) => _).
  assert (G : forall l0 ij r reached,
             (forall s0, r = Ok s0 -> hist_closed s0) ->
             forall s1, fst (snd (fold_left step l0 (ij, (r, reached)))) = Ok s1 -> hist_closed s1).
  { induction l0 as [|d l0 IH]; intros [i j] r reached Hr s1 H; cbn [fold_left snd fst] in H; [apply Hr; exact H|].
    unfold step at 2 in H. destruct r as [s0|e|e].
    - destruct d as [[[a bits] pre] post].
      destruct (add_to_balance s0 a PTickerPEG _) as [s2|e|e] eqn:Ea;
        try (eapply IH; [|exact H]; intros ? HH; discriminate).
      assert (Hn2 : hist_closed s2) by (eapply hist_closed_keys; [eapply keys_add; exact Ea|apply Hr; reflexivity]).
      destruct (insert_hbatch s2 _) as [s3|e|e] eqn:Eb;
        try (eapply IH; [|exact H]; intros ? HH; discriminate).
      destruct (insert_htx s3 _ _) as [s4|e|e] eqn:Ec;
        try (eapply IH; [|exact H]; intros ? HH; discriminate).
      eapply IH; [|exact H]. intros s5 HH; inversion HH; subst.
      eapply closed_pair; [exact Hn2|exact Eb|exact Ec|reflexivity].
    - eapply IH; [|exact H]. intros ? HH; discriminate.
    - eapply IH; [|exact H]. intros ? HH; discriminate. }
  intros H. eapply (G l (0, 1) (Ok s) s); [|exact H]. intros s0 HH; inversion HH; subst; exact Hn.
Qed.

Lemma nullify_burn_closed cm h ts s : hist_closed s -> hist_closed (nullify_burn c cm h ts s).
Proof.
  intros Hn. unfold nullify_burn.
  set (step := fun (acc : Z * Z * (bool * db)) (t : Z) => _).
  generalize (0, (if c_V202EnhanceActivation c <=? h then 50 else 0)) as ij.
  generalize true as live. revert s Hn. generalize all_tickers as l.
  induction l as [|t l IH]; intros s Hn live ij; cbn [fold_left]; [exact Hn|].
  destruct ij as [i j]. unfold step at 2. destruct live; cbn [negb]; [|apply IH; exact Hn].
  set (a := if c_V202EnhanceActivation c <=? h then GlobalBurnAddress else GlobalOldBurnAddress).
  assert (Hn1 : hist_closed (match sub_ignoring_txerr s a t (get_bal (bal cm) a t) with Ok s' => s' | _ => s end)).
  { destruct (sub_ignoring_txerr s a t (get_bal (bal cm) a t)) eqn:E; try exact Hn.
    eapply hist_closed_keys; [eapply keys_sub_ignoring; exact E|exact Hn]. }
  destruct (c_V202EnhanceActivation c <=? h); [apply IH; exact Hn1|].
  destruct (insert_hbatch _ _) as [s2|?|?] eqn:E2; try (apply IH; exact Hn1).
  assert (Hn2 : hist_closed s2) by (exact (proj1 (closed_hbatch _ _ _ E2 Hn1))).
  destruct (0 <? _); [apply IH; exact Hn2|].
  destruct (insert_htx s2 _ _) as [s3|?|?] eqn:E3; try (apply IH; exact Hn2).
  apply IH. eapply closed_pair; [exact Hn1|exact E2|exact E3|reflexivity].
Qed.

(* ---- SyncBlock and the loop body ------------------------------------------------------------------------------------------ *)
Ltac done_step H x Hx := apply obind_done in H as (x & Hx & H).
Ltac by_keys L := eapply hist_closed_keys; [eapply L; eassumption|assumption].

Lemma sync_block_closed cm mem b s s' mem' :
  hist_closed s -> sync_block c cm mem b s = Done (s', mem') -> hist_closed s'.
Proof.
  intros Hn H. unfold sync_block in H. cbv zeta in H.
  done_step H s1 H1. apply of_res_done in H1.
  assert (Hn1 : hist_closed s1).
  { destruct (_ =? c_V204EnhanceActivation c); [by_keys keys_mint_tokens|inversion H1; subst; exact Hn]. }
  clear H1 Hn s. done_step H s2 H2. apply of_res_done in H2.
  assert (Hn2 : hist_closed s2).
  { destruct (_ =? c_V204BurnMintedTokenActivation c); [by_keys keys_nullify_minted|inversion H2; subst; exact Hn1]. }
  clear H2 Hn1 s1. done_step H graded Hg. done_step H gradedS HgS.
  done_step H st Hst. destruct st as [[s3 is_rates] ended].
  assert (Hn3 : hist_closed s3).
  { destruct (_ <? c_V20HeightActivation c).
    - destruct graded as [v|]; [|inversion Hst; subst; exact Hn2].
      done_step Hst s4 H4. apply of_res_done in H4.
      assert (Hn4 : hist_closed s4) by (by_keys keys_insert_grade).
      destruct (v_winners v); [inversion Hst; subst; exact Hn4|].
      done_step Hst s5 H5. apply of_res_done in H5. inversion Hst; subst. by_keys keys_insert_rates.
    - destruct (grade_spr_err c cm b); [discriminate|].
      done_step Hst s4 H4.
      assert (Hn4 : hist_closed s4).
      { destruct graded as [v|]; [apply of_res_done in H4; by_keys keys_insert_grade|inversion H4; subst; exact Hn2]. }
      destruct (first_assets graded) as [|o0 o]; destruct (first_assets gradedS) as [|p0 p];
        try (inversion Hst; subst; exact Hn4);
        (destruct (select_rates c _ _ _); [|inversion Hst; subst; exact Hn4];
         done_step Hst s5 H5; apply of_res_done in H5; inversion Hst; subst; by_keys keys_insert_rates). }
  clear Hst Hn2 s2. destruct ended; [inversion H; subst; exact Hn3|].
  done_step H st2 Hst2. destruct st2 as [s4 mem4].
  assert (Hn4 : hist_closed s4).
  { destruct (c_TransactionConversionActivation c <=? _); [|inversion Hst2; subst; exact Hn3].
    done_step Hst2 st Hs. destruct st as [s5 rates1].
    assert (Hn5 : hist_closed s5).
    { destruct ((c_V20HeightActivation c <=? _) && _); [|inversion Hs; subst; exact Hn3].
      done_step Hs s6 H6. apply of_res_done in H6. inversion Hs; subst. exact (snapshot_payouts_closed _ _ _ _ _ Hn3 H6). }
    done_step Hst2 st Hs2. destruct st as [s6 mem6].
    assert (Hn6 : hist_closed s6).
    { destruct is_rates; [|inversion Hs2; subst; exact Hn5].
      done_step Hs2 s7 H7. apply of_res_done in H7.
      assert (Hn7 : hist_closed s7).
      { destruct ((c_V4OPRUpdate c <=? _) && _); [by_keys keys_insert_bank|inversion H7; subst; exact Hn5]. }
      destruct (get_averages cm _ mem _) as [avgs mem'']. done_step Hs2 s8 H8. apply of_res_done in H8.
      inversion Hs2; subst. by_keys keys_apply_holding. }
    done_step Hst2 s7 H7. inversion Hst2; subst.
    destruct (b_tx b); [apply of_res_done in H7; exact (apply_tx_block_closed _ _ _ _ Hn6 H7)|inversion H7; subst; exact Hn6]. }
  clear Hst2 Hn3 s3. done_step H s5 H5.
  assert (Hn5 : hist_closed s5).
  { destruct (_ <? c_V20HeightActivation c); [apply of_res_done in H5; exact (apply_factoid_block_closed _ _ _ _ Hn4 H5)|inversion H5; subst; exact Hn4]. }
  done_step H s6 H6.
  assert (Hn6 : hist_closed s6).
  { destruct graded; [apply of_res_done in H6; exact (pay_winners_closed _ _ _ _ Hn5 H6)|inversion H6; subst; exact Hn5]. }
  done_step H s7 H7.
  assert (Hn7 : hist_closed s7).
  { destruct (c_V20HeightActivation c <=? _); [|inversion H7; subst; exact Hn6].
    destruct gradedS; [apply of_res_done in H7; exact (pay_winners_closed _ _ _ _ Hn6 H7)|inversion H7; subst; exact Hn6]. }
  done_step H s8 H8. inversion H; subst.
  destruct ((c_V20DevRewardsHeightActivation c <=? _) && _); [apply of_res_done in H8; exact (developers_payouts_closed _ _ _ _ Hn7 H8)|inversion H8; subst; exact Hn7].
Qed.

Theorem step_block_closed cm mem b s' mem' :
  hist_closed cm -> step_block c cm mem b = Done (s', mem') -> hist_closed s'.
Proof.
  intros Hc H. unfold step_block in H. cbv zeta in H.
  done_step H r Hr. destruct r as [s1 mem1]. done_step H s2 H2. apply of_res_done in H2. inversion H; subst.
  eapply hist_closed_keys; [eapply keys_insert_synced; exact H2|].
  eapply sync_block_closed; [|exact Hr].
  destruct (_ =? c_V202EnhanceActivation c); destruct (_ =? c_V20DevRewardsHeightActivation c).
  - apply nullify_burn_closed. apply nullify_burn_closed. exact Hc.
  - apply nullify_burn_closed. exact Hc.
  - apply nullify_burn_closed. exact Hc.
  - exact Hc.
Qed.

Lemma hist_closed_genesis : hist_closed genesis.
Proof. split; intros x Hx; destruct Hx. Qed.

(* in every state reached by replay from the fresh database the invariant holds *)
Theorem replay_closed bs s m : replay c genesis empty_cache bs = Done (s, m) -> hist_closed s.
Proof. apply (replay_inv c hist_closed); [intros; eapply step_block_closed; eauto|apply hist_closed_genesis]. Qed.
End WithCfg.

Print Assumptions step_block_closed.
Print Assumptions replay_closed.
