(* Lemmas/SupplyLemmas.v — per-asset supply (the column sums of pn_addresses) under the storage
   operations: the basis of C04 (value is created or destroyed only by protocol events). *)
From Model Require Import Ledger.
From Lemmas Require Import DbLemmas LedgerLemmas.
From Gen Require Import Consts.
From Coq Require Import Lia.
Open Scope Z_scope.

Definition supply_step (t : ticker) (k : addr * ticker) (v : Z) (acc : Z) : Z := if snd k =? t then acc + v else acc.

Lemma supply_of_unfold m t : supply_of m t = map_fold (supply_step t) 0 m.
Proof. reflexivity. Qed.

Lemma supply_step_comm t j1 j2 z1 z2 y :
  supply_step t j1 z1 (supply_step t j2 z2 y) = supply_step t j2 z2 (supply_step t j1 z1 y).
Proof. unfold supply_step. destruct (snd j1 =? t), (snd j2 =? t); lia. Qed.

Lemma supply_insert_fresh m k v t :
  m !! k = None -> supply_of (<[k := v]> m) t = supply_of m t + (if snd k =? t then v else 0).
Proof.
  intros Hn. rewrite !supply_of_unfold.
  rewrite (map_fold_insert_L (supply_step t) 0 k v m); [|intros; apply supply_step_comm|exact Hn].
  set (X := map_fold (supply_step t) 0 m). clearbody X. unfold supply_step, ticker, addr in *. destruct (snd k =? t); lia.
Qed.

Lemma supply_insert m a t v t' :
  supply_of (<[(a, t) := v]> m) t' = supply_of m t' + (if t =? t' then v - get_bal m a t else 0).
Proof.
  unfold ticker, addr in *.
  destruct (m !! (a, t)) as [old|] eqn:E.
  - assert (G : get_bal m a t = old) by (unfold get_bal, ticker, addr in *; rewrite E; reflexivity). rewrite G.
    pose proof (supply_insert_fresh (delete (a, t) m) (a, t) old t' (lookup_delete m (a, t))) as F2.
    rewrite (insert_delete m (a, t) old E) in F2.
    pose proof (supply_insert_fresh (delete (a, t) m) (a, t) v t' (lookup_delete m (a, t))) as F1.
    rewrite (insert_delete_insert m (a, t) v) in F1.
    unfold ticker, addr in *. rewrite F1, F2. cbn [snd]. destruct (t =? t'); lia.
  - assert (G : get_bal m a t = 0) by (unfold get_bal, ticker, addr in *; rewrite E; reflexivity). rewrite G.
    pose proof (supply_insert_fresh m (a, t) v t' E) as F1. unfold ticker, addr in *. rewrite F1. cbn [snd]. destruct (t =? t'); lia.
Qed.

Lemma supply_empty t : supply_of ∅ t = 0.
Proof. rewrite supply_of_unfold. apply map_fold_empty. Qed.

(* AddToBalance creates exactly v units of asset t; SubFromBalance destroys exactly v *)
Lemma supply_add s a t v s' t' :
  add_to_balance s a t v = Ok s' -> supply s' t' = supply s t' + (if t =? t' then v else 0).
Proof.
  intros H. apply add_to_balance_ok in H as (_ & _ & ->). unfold supply; cbn.
  rewrite supply_insert. destruct (t =? t'); lia.
Qed.
Lemma supply_sub s a t v s' t' :
  sub_from_balance s a t v = SubOk s' -> supply s' t' = supply s t' - (if t =? t' then v else 0).
Proof.
  intros H. apply sub_from_balance_ok in H as (_ & _ & _ & ->). unfold supply; cbn.
  rewrite supply_insert. destruct (t =? t'); lia.
Qed.

Section WithCfg.
Variable c : cfg.

(* outputs of a transfer that go to the burn address in force at height h *)
Definition burned_out (h : Z) (trs : list transfer) : Z :=
  fold_right (fun tr acc => (if tr_addr tr =? burn_addr c h then tr_amt tr else 0) + acc) 0 trs.
Definition sum_out (trs : list transfer) : Z := fold_right (fun tr acc => tr_amt tr + acc) 0 trs.

Lemma supply_credit_transfers h hs idx ty trs : forall s s' t',
  credit_transfers c h hs idx ty trs s = Ok s' ->
  supply s' t' = supply s t' + (if ty =? t' then sum_out trs - burned_out h trs else 0).
Proof.
  unfold credit_transfers.
  induction trs as [|tr trs IH]; intros s s' t' H; cbn [fold_left] in H.
  - inversion H; subst. cbn. destruct (ty =? t'); lia.
  - cbn [rbind] in H. cbn [sum_out burned_out fold_right].
    destruct (tr_addr tr =? burn_addr c h) eqn:Eb.
    + rewrite (IH _ _ _ H). fold (sum_out trs) (burned_out h trs). destruct (ty =? t'); lia.
    + destruct (add_to_balance s (tr_addr tr) ty (tr_amt tr)) as [s1|e|e] eqn:Ea; cbn [rbind] in H;
        [|exfalso; eapply fold_res_fail; exact H|exfalso; eapply fold_res_panic; exact H].
      rewrite (IH _ _ _ H). unfold supply at 1. rewrite bal_insert_relation. fold (supply s1 t').
      rewrite (supply_add _ _ _ _ _ t' Ea). fold (sum_out trs) (burned_out h trs). destruct (ty =? t'); lia.
Qed.

(* what recording one transaction does to the supply of asset t' *)
Definition tx_delta (h : Z) (rates avgs : gmap ticker Z) (t : tx) (t' : ticker) : Z :=
  (if tx_type t =? t' then - tx_amt t else 0) +
  (if (c_PegnetConversionLimitActivation c <=? h) && is_peg_request t then 0
   else if is_conversion t then
     match conv_of c h rates avgs t with
     | Some out => if tx_conv t =? t' then wrap64 out else 0
     | None => 0
     end
   else if tx_type t =? t' then sum_out (tx_transfers t) - burned_out h (tx_transfers t) else 0).
Definition txs_delta h rates avgs (txs : list tx) (t' : ticker) : Z :=
  fold_right (fun t acc => tx_delta h rates avgs t t' + acc) 0 txs.

Lemma supply_set_executed s hs code t : supply (set_executed s hs code) t = supply s t.  Proof. reflexivity. Qed.
Lemma supply_insert_relation s a hs i to cv t : supply (insert_relation s a hs i to cv) t = supply s t.
Proof. unfold supply. rewrite bal_insert_relation. reflexivity. Qed.

Theorem supply_record_txs h hs rates avgs txs t' : forall idx s s',
  record_txs c h hs rates avgs idx txs s = Ok s' ->
  supply s' t' = supply s t' + txs_delta h rates avgs txs t'.
Proof.
  induction txs as [|t txs IH]; intros idx s s' H; cbn [record_txs] in H.
  - inversion H; subst. cbn. lia.
  - cbn [txs_delta fold_right]. fold (txs_delta h rates avgs txs t').
    destruct (sub_from_balance s (tx_addr t) (tx_type t) (tx_amt t)) as [s1| |code] eqn:Es; try discriminate.
    pose proof (supply_sub _ _ _ _ _ t' Es) as E1.
    set (s3 := set_executed (insert_relation s1 (tx_addr t) hs idx false (is_conversion t)) hs h) in *.
    assert (E3 : supply s3 t' = supply s1 t') by (unfold s3; rewrite supply_set_executed, supply_insert_relation; reflexivity).
    unfold tx_delta.
    destruct ((c_PegnetConversionLimitActivation c <=? h) && is_peg_request t).
    + destruct (conv_of c h rates avgs t); [|discriminate]. rewrite (IH _ _ _ H), E3, E1. destruct (tx_type t =? t'); lia.
    + destruct (is_conversion t).
      * destruct (conv_of c h rates avgs t) as [out|]; [|discriminate].
        apply rbind_ok in H as (s5 & Hadd & Hrest). rewrite (IH _ _ _ Hrest), (supply_add _ _ _ _ _ t' Hadd).
        unfold supply at 1. rewrite bal_set_to_amount. fold (supply s3 t'). rewrite E3, E1.
        destruct (tx_type t =? t'), (tx_conv t =? t'); lia.
      * apply rbind_ok in H as (s4 & Hc & Hrest). rewrite (IH _ _ _ Hrest), (supply_credit_transfers _ _ _ _ _ _ _ t' Hc), E3, E1.
        destruct (tx_type t =? t'); lia.
Qed.

(* C04, second sentence: a transfer whose outputs add up to its input and that names no burn
   address creates and destroys nothing, in any asset *)
Corollary transfer_conserves h rates avgs t t' :
  is_conversion t = false -> is_peg_request t = false ->
  sum_out (tx_transfers t) = tx_amt t -> burned_out h (tx_transfers t) = 0 ->
  tx_delta h rates avgs t t' = 0.
Proof.
  intros Hc Hp Hs Hb. unfold tx_delta. rewrite Hc, Hp, andb_false_r, Hs, Hb.
  destruct (tx_type t =? t'); lia.
Qed.
End WithCfg.
