(* Lemmas/WindowLemmas.v — C06 / C07, end to end: the holding window of a rated block.
   (1) last_rated_below is the largest rated height in (0, h), or 0 (the Go default) when there is none;
       window s cur = [last_rated_below s cur, cur), without repetition, increasing.
   (2) the windows of two rated heights are disjoint; the windows of consecutive rated heights tile.
   (3) the window is a function of the rated heights below the block.
   (4) chain level: in a replayed chain, the blocks whose holding pass looks at a height g are: the block at
       the least rated height above g, and no other. *)
From Model Require Import Block Obs Examples.
From Lemmas Require Import DbLemmas LedgerLemmas BlockLemmas FrameLemmas ChainLemmas HoldingLemmas
     TotalityBlockParts ExecExact TotalityChain.
From Gen Require Import Consts.
From Coq Require Import Lia ZifyBool Sorting.Sorted.
Open Scope Z_scope.
Open Scope list_scope.

(* ---- (1) last_rated_below -------------------------------------------------------------------------- *)
(* [rated s k]: pn_rate has rows for height k *)
Definition rated (s : db) (k : Z) : Prop := exists m, rates s !! k = Some m.

Lemma rated_dec s k : {rated s k} + {rates s !! k = None}.
Proof. unfold rated. destruct (rates s !! k) as [m|]; [left; eauto|right; reflexivity]. Qed.

(* the characterisation: either the result is a rated height in (0, h) that dominates every rated height
   below h, or there is no rated height in (0, h) and the result is the default 0.
   (Rated heights <= 0 are never returned as such: the fold starts from 0 and only moves up.) *)
Definition lrb_spec (s : db) (h L : Z) : Prop :=
  (rated s L /\ 0 < L < h /\ forall k, rated s k -> k < h -> k <= L)
  \/ (L = 0 /\ forall k, rated s k -> k < h -> k <= 0).

Theorem last_rated_below_spec s h : lrb_spec s h (last_rated_below s h).
Proof.
  unfold lrb_spec, rated, last_rated_below.
  apply (map_fold_ind (fun r (mm : gmap Z (gmap ticker Z)) =>
    ((exists m, mm !! r = Some m) /\ 0 < r < h /\ forall k, (exists m, mm !! k = Some m) -> k < h -> k <= r)
    \/ (r = 0 /\ forall k, (exists m, mm !! k = Some m) -> k < h -> k <= 0))).
  - right. split; [reflexivity|]. intros k (m & Hm) _. rewrite lookup_empty in Hm. discriminate.
  - intros i x mm r Hnone IH.
    destruct ((i <? h) && (r <? i)) eqn:E.
    + apply andb_prop in E as [E1 E2]. apply Z.ltb_lt in E1. apply Z.ltb_lt in E2.
      left. split; [exists x; apply lookup_insert|].
      assert (R0 : 0 <= r) by (destruct IH as [(_ & IH & _)|(IH & _)]; lia).
      split; [lia|].
      intros k (m & Hm) Hk. destruct (Z.eq_dec i k) as [->|N]; [lia|].
      rewrite lookup_insert_ne in Hm by exact N.
      destruct IH as [(_ & _ & IH)|(_ & IH)]; specialize (IH k (ex_intro _ m Hm) Hk); lia.
    + assert (E' : h <= i \/ i <= r) by lia. clear E.
      destruct IH as [((m0 & Hm0) & Hr & IH)|(-> & IH)].
      * left. split.
        { exists m0. rewrite lookup_insert_ne; [exact Hm0|]. intros ->. rewrite Hnone in Hm0. discriminate. }
        split; [exact Hr|].
        intros k (m & Hm) Hk. destruct (Z.eq_dec i k) as [->|N]; [lia|].
        rewrite lookup_insert_ne in Hm by exact N. apply IH; [eauto|exact Hk].
      * right. split; [reflexivity|].
        intros k (m & Hm) Hk. destruct (Z.eq_dec i k) as [->|N]; [lia|].
        rewrite lookup_insert_ne in Hm by exact N. apply IH; [eauto|exact Hk].
Qed.

(* the specification determines the value *)
Lemma lrb_spec_unique s h L1 L2 : lrb_spec s h L1 -> lrb_spec s h L2 -> L1 = L2.
Proof.
  intros [(R1 & B1 & M1)|(-> & M1)] [(R2 & B2 & M2)|(-> & M2)].
  - pose proof (M1 _ R2 ltac:(lia)). pose proof (M2 _ R1 ltac:(lia)). lia.
  - pose proof (M2 _ R1 ltac:(lia)). lia.
  - pose proof (M1 _ R2 ltac:(lia)). lia.
  - reflexivity.
Qed.

Corollary last_rated_below_unique s h L : lrb_spec s h L -> last_rated_below s h = L.
Proof. intros H. exact (lrb_spec_unique s h _ _ (last_rated_below_spec s h) H). Qed.

Lemma last_rated_below_nonneg s h : 0 <= last_rated_below s h.
Proof. destruct (last_rated_below_spec s h) as [(_ & B & _)|(E & _)]; lia. Qed.

(* the result is rated, or it is the default 0 *)
Lemma last_rated_below_rated_or_default s h :
  (rated s (last_rated_below s h) /\ 0 < last_rated_below s h < h) \/ last_rated_below s h = 0.
Proof. destruct (last_rated_below_spec s h) as [(R & B & _)|(E & _)]; [left; auto|right; exact E]. Qed.

(* every rated height below h is at most the result (also for negative heights) *)
Lemma last_rated_below_max s h k : rated s k -> k < h -> k <= last_rated_below s h.
Proof.
  intros R Hk. destruct (last_rated_below_spec s h) as [(_ & _ & M)|(E & M)]; [exact (M k R Hk)|].
  rewrite E. exact (M k R Hk).
Qed.

(* no rated height strictly between the result and h *)
Lemma last_rated_below_gap s h k : last_rated_below s h < k < h -> rates s !! k = None.
Proof.
  intros Hk. destruct (rated_dec s k) as [R|N]; [|exact N].
  pose proof (last_rated_below_max s h k R ltac:(lia)). lia.
Qed.

(* ---- the window as a list ------------------------------------------------------------------------- *)
Lemma zrange_sorted n : forall lo, StronglySorted Z.lt (zrange lo n).
Proof.
  induction n as [|n IH]; intros lo; cbn [zrange]; [constructor|].
  constructor; [apply IH|]. apply Forall_forall. intros k Hk. apply in_zrange_iff in Hk. lia.
Qed.

Lemma zrange_NoDup n lo : List.NoDup (zrange lo n).
Proof.
  revert lo. induction n as [|n IH]; intros lo; cbn [zrange]; [constructor|].
  constructor; [|apply IH]. intros Hin. apply in_zrange_iff in Hin. lia.
Qed.

Lemma zrange_length n : forall lo, length (zrange lo n) = n.
Proof. induction n as [|n IH]; intros lo; cbn [zrange length]; [reflexivity|]. rewrite IH. reflexivity. Qed.

Lemma zrange_nth n : forall lo i d, (i < n)%nat -> nth i (zrange lo n) d = lo + Z.of_nat i.
Proof.
  induction n as [|n IH]; intros lo i d Hi; [lia|]. cbn [zrange].
  destruct i as [|i]; cbn [nth]; [lia|]. rewrite IH by lia. lia.
Qed.

(* window s cur is the list last_rated_below s cur, ..., cur-1: no repetition, increasing; empty when cur <= 0 *)
Theorem window_shape s cur :
  window s cur = zrange (last_rated_below s cur) (Z.to_nat (cur - last_rated_below s cur)) /\
  List.NoDup (window s cur) /\ StronglySorted Z.lt (window s cur) /\
  (forall g, In g (window s cur) <-> last_rated_below s cur <= g < cur) /\
  length (window s cur) = Z.to_nat (cur - last_rated_below s cur) /\
  (forall i d, (i < length (window s cur))%nat -> nth i (window s cur) d = last_rated_below s cur + Z.of_nat i).
Proof.
  unfold window. split; [reflexivity|]. split; [apply zrange_NoDup|]. split; [apply zrange_sorted|].
  split; [intros g; rewrite in_zrange_iff; lia|]. split; [apply zrange_length|].
  intros i d Hi. rewrite zrange_length in Hi. apply zrange_nth. exact Hi.
Qed.

Lemma window_nonpos s cur : cur <= 0 -> window s cur = [].
Proof.
  intros Hc. unfold window. pose proof (last_rated_below_nonneg s cur).
  replace (Z.to_nat (cur - last_rated_below s cur)) with O by lia. reflexivity.
Qed.

(* the heights a window contains are >= 0 *)
Lemma window_nonneg s cur g : In g (window s cur) -> 0 <= g.
Proof. intros H. apply window_spec in H. pose proof (last_rated_below_nonneg s cur). lia. Qed.

(* ---- (2) disjoint, tiling -------------------------------------------------------------------------- *)
(* two rated heights (in fact only the smaller one has to be rated): their windows share no height *)
Theorem windows_disjoint s r1 r2 g :
  rated s r1 -> 0 <= r1 -> r1 < r2 -> In g (window s r1) -> In g (window s r2) -> False.
Proof.
  intros R1 H0 Hlt G1 G2. apply window_spec in G1. apply window_spec in G2.
  pose proof (last_rated_below_max s r2 r1 R1 Hlt). lia.
Qed.

(* consecutive rated heights: the window of the second starts exactly at the first *)
Theorem windows_tile s r1 r2 :
  rated s r1 -> 0 <= r1 -> r1 < r2 -> (forall k, r1 < k < r2 -> rates s !! k = None) ->
  last_rated_below s r2 = r1 /\ window s r2 = zrange r1 (Z.to_nat (r2 - r1)) /\
  forall g, In g (window s r2) <-> r1 <= g < r2.
Proof.
  intros R1 H0 Hlt Hgap.
  assert (E : last_rated_below s r2 = r1).
  { pose proof (last_rated_below_max s r2 r1 R1 Hlt) as Hge.
    destruct (last_rated_below_rated_or_default s r2) as [((m & Hm) & B)|E0]; [|lia].
    destruct (Z.eq_dec (last_rated_below s r2) r1) as [E|N]; [exact E|].
    rewrite Hgap in Hm by lia. discriminate. }
  split; [exact E|]. split; [unfold window; rewrite E; reflexivity|].
  intros g. rewrite window_spec, E. reflexivity.
Qed.

(* the first rated height (none in (0, r)): its window starts at the model's default 0 *)
Theorem window_first_rated s r :
  (forall k, 0 < k < r -> rates s !! k = None) ->
  last_rated_below s r = 0 /\ window s r = zrange 0 (Z.to_nat r) /\ forall g, In g (window s r) <-> 0 <= g < r.
Proof.
  intros Hnone.
  assert (E : last_rated_below s r = 0).
  { destruct (last_rated_below_rated_or_default s r) as [((m & Hm) & B)|E0]; [|exact E0].
    rewrite Hnone in Hm by lia. discriminate. }
  split; [exact E|]. split; [unfold window; rewrite E, Z.sub_0_r; reflexivity|].
  intros g. rewrite window_spec, E. reflexivity.
Qed.

(* ---- (3) the window depends only on the rated heights below the block ------------------------------ *)
Theorem last_rated_below_agree s s' cur :
  (forall k, k < cur -> rates s !! k = rates s' !! k) -> last_rated_below s cur = last_rated_below s' cur.
Proof.
  intros Hag. apply last_rated_below_unique.
  assert (T : forall k, k < cur -> rated s k <-> rated s' k).
  { intros k Hk. unfold rated. rewrite (Hag k Hk). reflexivity. }
  destruct (last_rated_below_spec s' cur) as [(R & B & M)|(E & M)].
  - left. split; [apply T; [lia|exact R]|]. split; [exact B|].
    intros k Rk Hk. apply M; [apply T; assumption|exact Hk].
  - right. split; [exact E|]. intros k Rk Hk. apply M; [apply T; assumption|exact Hk].
Qed.

Theorem window_agree s s' cur :
  (forall k, k < cur -> rates s !! k = rates s' !! k) -> window s cur = window s' cur.
Proof. intros Hag. unfold window. rewrite (last_rated_below_agree s s' cur Hag). reflexivity. Qed.

(* only WHICH heights are rated matters, not the rate maps *)
Theorem window_agree_rated s s' cur :
  (forall k, k < cur -> rated s k <-> rated s' k) -> window s cur = window s' cur.
Proof.
  intros T. unfold window.
  assert (E : last_rated_below s cur = last_rated_below s' cur).
  { apply last_rated_below_unique.
    destruct (last_rated_below_spec s' cur) as [(R & B & M)|(E & M)].
    - left. split; [apply T; [lia|exact R]|]. split; [exact B|].
      intros k Rk Hk. apply M; [apply T; assumption|exact Hk].
    - right. split; [exact E|]. intros k Rk Hk. apply M; [apply T; assumption|exact Hk]. }
  rewrite E. reflexivity.
Qed.

(* ---- the window of a rated height, read from the held height g --------------------------------------- *)
(* [first_rated_above s g r]: r is the least rated height strictly above g *)
Definition first_rated_above (s : db) (g r : Z) : Prop :=
  rated s r /\ g < r /\ forall k, rated s k -> g < k -> r <= k.

Lemma first_rated_above_unique s g r r' : first_rated_above s g r -> first_rated_above s g r' -> r = r'.
Proof. intros (R1 & L1 & M1) (R2 & L2 & M2). pose proof (M1 _ R2 L2). pose proof (M2 _ R1 L1). lia. Qed.

(* g is in the window of r  <->  g >= 0, g < r and no rated height lies strictly between g and r *)
Theorem window_iff_no_rated_between s r g :
  In g (window s r) <-> 0 <= g < r /\ forall k, g < k < r -> rates s !! k = None.
Proof.
  rewrite window_spec. split.
  - intros Hg. pose proof (last_rated_below_nonneg s r). split; [lia|].
    intros k Hk. apply (last_rated_below_gap s r). lia.
  - intros (Hg & Hnone). split; [|lia].
    destruct (last_rated_below_rated_or_default s r) as [((m & Hm) & B)|E0]; [|lia].
    destruct (Z_le_gt_dec (last_rated_below s r) g) as [Hle|Hgt]; [exact Hle|].
    rewrite Hnone in Hm by lia. discriminate.
Qed.

(* for a rated height r: g is in its window  <->  g >= 0 and r is the first rated height above g *)
Theorem window_iff_first_rated_above s r g :
  rated s r -> (In g (window s r) <-> 0 <= g /\ first_rated_above s g r).
Proof.
  intros Rr. rewrite window_iff_no_rated_between. unfold first_rated_above. split.
  - intros (Hg & Hnone). split; [lia|]. split; [exact Rr|]. split; [lia|].
    intros k (m & Hm) Hk. destruct (Z_le_gt_dec r k) as [Hle|Hgt]; [exact Hle|].
    rewrite Hnone in Hm by lia. discriminate.
  - intros (Hg & _ & Hlt & M). split; [lia|].
    intros k Hk. destruct (rated_dec s k) as [Rk|N]; [|exact N]. specialize (M k Rk ltac:(lia)). lia.
Qed.

(* exactly once, on a state: a height g >= 0 is in the window of AT MOST ONE rated height ... *)
Corollary held_height_in_one_window s g r r' :
  rated s r -> rated s r' -> In g (window s r) -> In g (window s r') -> r = r'.
Proof.
  intros R R' G G'. apply (window_iff_first_rated_above s r g R) in G as (_ & F).
  apply (window_iff_first_rated_above s r' g R') in G' as (_ & F'). exact (first_rated_above_unique s g r r' F F').
Qed.

(* ... and of EXACTLY one as soon as some height above g is rated *)
Lemma first_rated_above_exists s g : forall r0, 0 <= g -> rated s r0 -> g < r0 -> exists r, first_rated_above s g r /\ r <= r0.
Proof.
  intros r0 Hg. remember (Z.to_nat (r0 - g)) as n eqn:En. revert r0 En.
  induction n as [n IH] using lt_wf_ind. intros r0 En R0 Hlt.
  destruct (Z_le_gt_dec (last_rated_below s r0) g) as [Hle|Hgt].
  - exists r0. split; [|lia]. apply (window_iff_first_rated_above s r0 g R0). apply window_spec. lia.
  - destruct (last_rated_below_rated_or_default s r0) as [(RL & B)|E0]; [|lia].
    destruct (IH (Z.to_nat (last_rated_below s r0 - g)) ltac:(lia) (last_rated_below s r0) eq_refl RL ltac:(lia))
      as (r & F & Hr).
    exists r. split; [exact F|lia].
Qed.

Theorem held_height_in_exactly_one_window s g r0 :
  0 <= g -> rated s r0 -> g < r0 ->
  exists r, rated s r /\ In g (window s r) /\ forall r', rated s r' -> In g (window s r') -> r' = r.
Proof.
  intros Hg R0 Hlt. destruct (first_rated_above_exists s g r0 Hg R0 Hlt) as (r & F & _).
  pose proof F as (Rr & _). exists r. split; [exact Rr|].
  split; [apply (window_iff_first_rated_above s r g Rr); auto|].
  intros r' R' G'. apply (window_iff_first_rated_above s r' g R') in G' as (_ & F').
  exact (first_rated_above_unique s g r' r F' F).
Qed.

Print Assumptions last_rated_below_spec.
Print Assumptions window_shape.
Print Assumptions windows_disjoint.
Print Assumptions windows_tile.
Print Assumptions window_agree.
Print Assumptions window_iff_first_rated_above.
Print Assumptions held_height_in_exactly_one_window.

(* ---- (4) chain level ------------------------------------------------------------------------------------- *)
Section Chain.
Variable c : cfg.

Lemma nullify_burn_rates cm h ts s : rates (nullify_burn c cm h ts s) = rates s.
Proof. symmetry. eapply (pr_nullify_burn (fun s : db => rates s) (@eq _)); try (untouched; fail). Qed.

Lemma last_rated_below_rates s s' h : rates s = rates s' -> last_rated_below s h = last_rated_below s' h.
Proof. intros E. unfold last_rated_below. rewrite E. reflexivity. Qed.

(* the holding pass with the list of heights made explicit: [apply_holding] is this on [window s cur] *)
Definition holding_pass_over (cm : db) (cur : Z) (s : db) (rts avgs : gmap ticker Z) (w : list Z) : res db :=
  let? st := fold_left (fun acc hh => apply_held_height c cm cur rts avgs hh acc) w (Ok (s, [])) in
  let '(s1, pegs) := st in
  if (c_V4OPRUpdate c <=? cur) && (cur <? c_V20HeightActivation c) then
    match bank s1 !! cur with
    | None => record_peg_requests c cur s1 pegs rts avgs (wrap64 (-1)) cur
    | Some (amount, _, _) => record_peg_requests c cur s1 pegs rts avgs amount cur
    end
  else Ok s1.

Lemma apply_holding_pass_over cm cur s rts avgs :
  apply_holding c cm cur s rts avgs = holding_pass_over cm cur s rts avgs (window s cur).
Proof. reflexivity. Qed.

(* the dichotomy of Lemmas/ExecExact.v one level up, for the body of the sync loop, with the window read in the
   COMMITTED state the block started from *)
Theorem step_block_rated_dichotomy cm mem b s' mem' :
  step_block c cm mem b = Done (s', mem') ->
  c_TransactionConversionActivation c <= b_height b ->
  (~ block_rated c cm b /\ rates s' = rates cm)
  \/
  (block_rated c cm b /\ rates cm !! b_height b = None /\
   exists m s1 s2,
     is_empty_map m = false /\
     rates s1 = <[b_height b := m]> (rates cm) /\
     apply_holding c cm (b_height b) s1 m
        (fst (get_averages cm (c_AveragePeriod c) mem (last_rated_below cm (b_height b)))) = Ok s2 /\
     window s1 (b_height b) = window cm (b_height b) /\
     rates s' = <[b_height b := m]> (rates cm)).
Proof.
  intros H Htca. unfold step_block in H. cbv zeta in H.
  apply obind_done in H as ([sa mema] & Hr & H). apply obind_done in H as (sb & Hb & H). apply of_res_done in Hb.
  inversion H; subst sb mema. clear H.
  apply insert_synced_shape in Hb as (_ & ->). cbn [rates set_synced].
  match type of Hr with sync_block c cm mem b ?s0 = _ => set (s0' := s0) in Hr end.
  assert (E0 : rates s0' = rates cm).
  { subst s0'. destruct (_ =? c_V202EnhanceActivation c); destruct (_ =? c_V20DevRewardsHeightActivation c);
      rewrite ?nullify_burn_rates; reflexivity. }
  destruct (sync_block_rated_dichotomy c _ _ _ _ _ _ Hr Htca)
    as [(NB & E)|(BR & Hn & m & s1 & s2 & Hm & E1 & Hap & Hmem & Hl & E2 & E3)].
  - left. split; [exact NB|]. rewrite E. exact E0.
  - right. split; [exact BR|]. split; [rewrite <- E0; exact Hn|].
    assert (EL : last_rated_below s1 (b_height b) = last_rated_below cm (b_height b)).
    { rewrite Hl. apply last_rated_below_rates. exact E0. }
    exists m, s1, s2. split; [exact Hm|]. split; [rewrite E1, E0; reflexivity|].
    split; [rewrite <- EL; exact Hap|]. split; [unfold window; rewrite EL; reflexivity|].
    rewrite E3, E1, E0. reflexivity.
Qed.

(* ---- chains: decomposition, frame of pn_rate --------------------------------------------------------------- *)
Lemma replay_app l1 : forall cm mem l2 r,
  replay c cm mem (l1 ++ l2) = Done r ->
  exists s1 m1, replay c cm mem l1 = Done (s1, m1) /\ replay c s1 m1 l2 = Done r.
Proof.
  induction l1 as [|b l1 IH]; intros cm mem l2 r H.
  - exists cm, mem. split; [reflexivity|exact H].
  - rewrite <- app_comm_cons in H. apply replay_cons in H as (sa & ma & Hs & H).
    destruct (IH _ _ _ _ H) as (s1 & m1 & H1 & H2). exists s1, m1. split; [|exact H2].
    cbn [replay]. rewrite Hs. exact H1.
Qed.

Lemma replay_rates_ext bs : forall cm mem s m, replay c cm mem bs = Done (s, m) -> rates_ext (rates cm) (rates s).
Proof.
  induction bs as [|b bs IH]; intros cm mem s m H.
  - inversion H; subst. reflexivity.
  - apply replay_cons in H as (s1 & m1 & H1 & H2).
    etransitivity; [exact (step_block_rates_immutable c _ _ _ _ _ H1)|exact (IH _ _ _ _ H2)].
Qed.

(* pn_rate changes only at the heights of the blocks applied *)
Lemma replay_rates_frame k bs : forall cm mem s m,
  replay c cm mem bs = Done (s, m) -> (forall b, In b bs -> b_height b <> k) -> rates s !! k = rates cm !! k.
Proof.
  induction bs as [|b bs IH]; intros cm mem s m H Hk.
  - inversion H; subst. reflexivity.
  - apply replay_cons in H as (s1 & m1 & H1 & H2).
    rewrite (IH _ _ _ _ H2) by (intros b' Hb'; apply Hk; right; exact Hb').
    apply (step_block_rates_only_own_height c cm mem b s1 m1 k); [|exact H1].
    intros ->. exact (Hk b (or_introl eq_refl) eq_refl).
Qed.

Lemma increasing_from_weaken bs h h' : h' <= h -> increasing_from h bs -> increasing_from h' bs.
Proof. destruct bs as [|b bs]; cbn [increasing_from]; [auto|]. intros Hle (H1 & H2). split; [lia|exact H2]. Qed.

Lemma increasing_from_ge bs : forall h b, increasing_from h bs -> In b bs -> h <= b_height b.
Proof.
  induction bs as [|x bs IH]; intros h b Hinc Hin; [contradiction|].
  cbn [increasing_from] in Hinc. destruct Hinc as (H1 & H2). destruct Hin as [->|Hin]; [exact H1|].
  specialize (IH _ _ H2 Hin). lia.
Qed.

Lemma increasing_from_app pre : forall h b post,
  increasing_from h (pre ++ b :: post) ->
  increasing_from h pre /\ (forall x, In x pre -> b_height x < b_height b) /\ h <= b_height b /\
  increasing_from (b_height b + 1) post.
Proof.
  induction pre as [|x pre IH]; intros h b post H.
  - cbn [app increasing_from] in H. destruct H as (H1 & H2).
    split; [exact I|]. split; [intros ? []|]. split; [exact H1|exact H2].
  - rewrite <- app_comm_cons in H. cbn [increasing_from] in H. destruct H as (H1 & H2).
    destruct (IH _ _ _ H2) as (I1 & I2 & I3 & I4).
    split; [cbn [increasing_from]; split; assumption|].
    split; [intros y [->|Hy]; [lia|exact (I2 y Hy)]|]. split; [lia|exact I4].
Qed.

(* in a chain of increasing heights a block is determined by its height *)
Lemma increasing_from_height_inj bs : forall h b b',
  increasing_from h bs -> In b bs -> In b' bs -> b_height b = b_height b' -> b = b'.
Proof.
  induction bs as [|x bs IH]; intros h b b' Hinc Hb Hb' E; [contradiction|].
  cbn [increasing_from] in Hinc. destruct Hinc as (H1 & H2).
  destruct Hb as [->|Hb]; destruct Hb' as [->|Hb'].
  - reflexivity.
  - pose proof (increasing_from_ge _ _ _ H2 Hb'). lia.
  - pose proof (increasing_from_ge _ _ _ H2 Hb). lia.
  - exact (IH _ _ _ H2 Hb Hb' E).
Qed.

(* a height that got rated during the replay is the height of a block of the chain *)
Lemma replay_new_rate_is_block bs cm mem s m k :
  replay c cm mem bs = Done (s, m) -> rates cm !! k = None -> rated s k -> exists b, In b bs /\ b_height b = k.
Proof.
  intros H Hn (v & Hv).
  destruct (existsb (fun b => b_height b =? k) bs) eqn:E.
  - apply existsb_exists in E as (b & Hb & Eb). exists b. split; [exact Hb|lia].
  - exfalso. rewrite (replay_rates_frame k bs _ _ _ _ H) in Hv; [congruence|].
    intros b Hb Eb. assert (X : existsb (fun b => b_height b =? k) bs = true); [|congruence].
    apply existsb_exists. exists b. split; [exact Hb|lia].
Qed.

(* one block of a chain: the state it starts from and the final state of the chain have the same rated heights
   below the block, hence the same window; what the block records at its own height is what the final state has *)
Theorem chain_block_window h0 s0 m0 pre b post sf mf :
  increasing_from h0 (pre ++ b :: post) ->
  replay c s0 m0 (pre ++ b :: post) = Done (sf, mf) ->
  exists cm mem s' mem',
    replay c s0 m0 pre = Done (cm, mem) /\ step_block c cm mem b = Done (s', mem') /\
    replay c s' mem' post = Done (sf, mf) /\
    (forall k, k < b_height b -> rates cm !! k = rates sf !! k) /\
    (forall k, k <= b_height b -> rates s' !! k = rates sf !! k) /\
    (forall k, b_height b <= k -> rates cm !! k = rates s0 !! k) /\
    window cm (b_height b) = window sf (b_height b).
Proof.
  intros Hinc H. destruct (increasing_from_app _ _ _ _ Hinc) as (I1 & I2 & I3 & I4).
  apply replay_app in H as (cm & mem & Hpre & H). apply replay_cons in H as (s' & mem' & Hstep & Hpost).
  exists cm, mem, s', mem'. split; [exact Hpre|]. split; [exact Hstep|]. split; [exact Hpost|].
  assert (A2 : forall k, k <= b_height b -> rates s' !! k = rates sf !! k).
  { intros k Hk. symmetry. apply (replay_rates_frame k post _ _ _ _ Hpost).
    intros x Hx. pose proof (increasing_from_ge _ _ _ I4 Hx). lia. }
  assert (A1 : forall k, k < b_height b -> rates cm !! k = rates sf !! k).
  { intros k Hk. rewrite <- (A2 k) by lia. symmetry.
    apply (step_block_rates_only_own_height c cm mem b s' mem' k); [lia|exact Hstep]. }
  split; [exact A1|]. split; [exact A2|].
  split; [intros k Hk; apply (replay_rates_frame k pre _ _ _ _ Hpre); intros x Hx; specialize (I2 x Hx); lia|].
  apply window_agree. exact A1.
Qed.

(* THE chain-level statement.  A chain of increasing heights (from h0) replayed from a state with no rates at or above
   h0 (e.g. genesis) to the final state sf; b one of its blocks, at or above the activation of conversions.
     - b's height is unrated in sf: b is not a rated block and leaves pn_rate alone — it ran no holding pass
       (sync_block_rated_dichotomy: the pass is run by rated blocks only);
     - b's height is rated in sf with map m: b is a rated block, its height was unrated before, and it ran the holding
       pass once, with rates m, over the heights [window sf (b_height b)] — the window evaluated in the FINAL state —
       and a height g is in that window exactly when g >= 0 and b's height is the least rated height of sf above g. *)
Theorem chain_holding_pass h0 s0 m0 pre b post sf mf :
  increasing_from h0 (pre ++ b :: post) ->
  (forall k, h0 <= k -> rates s0 !! k = None) ->
  replay c s0 m0 (pre ++ b :: post) = Done (sf, mf) ->
  c_TransactionConversionActivation c <= b_height b ->
  exists cm mem s' mem',
    replay c s0 m0 pre = Done (cm, mem) /\ step_block c cm mem b = Done (s', mem') /\
    replay c s' mem' post = Done (sf, mf) /\
    ((rates sf !! b_height b = None /\ ~ block_rated c cm b /\ rates s' = rates cm)
     \/
     (exists m s1 s2,
        rates sf !! b_height b = Some m /\ block_rated c cm b /\ rates cm !! b_height b = None /\
        is_empty_map m = false /\ rates s1 = <[b_height b := m]> (rates cm) /\
        holding_pass_over cm (b_height b) s1 m
          (fst (get_averages cm (c_AveragePeriod c) mem (last_rated_below sf (b_height b))))
          (window sf (b_height b)) = Ok s2 /\
        window s1 (b_height b) = window sf (b_height b) /\
        forall g, In g (window sf (b_height b)) <-> 0 <= g /\ first_rated_above sf g (b_height b))).
Proof.
  intros Hinc Hs0 H Htca.
  destruct (chain_block_window _ _ _ _ _ _ _ _ Hinc H) as (cm & mem & s' & mem' & Hpre & Hstep & Hpost & A1 & A2 & A3 & W).
  exists cm, mem, s', mem'. split; [exact Hpre|]. split; [exact Hstep|]. split; [exact Hpost|].
  destruct (increasing_from_app _ _ _ _ Hinc) as (_ & _ & I3 & _).
  assert (Hcm : rates cm !! b_height b = None) by (rewrite A3 by lia; apply Hs0; exact I3).
  destruct (step_block_rated_dichotomy _ _ _ _ _ Hstep Htca)
    as [(NB & E)|(BR & Hn & m & s1 & s2 & Hm & E1 & Hap & W1 & E3)].
  - left. split; [|split; [exact NB|exact E]]. rewrite <- A2 by lia. rewrite E. exact Hcm.
  - right. exists m, s1, s2.
    assert (Hsf : rates sf !! b_height b = Some m) by (rewrite <- A2 by lia; rewrite E3; apply lookup_insert).
    split; [exact Hsf|]. split; [exact BR|]. split; [exact Hn|]. split; [exact Hm|]. split; [exact E1|].
    assert (EL : last_rated_below cm (b_height b) = last_rated_below sf (b_height b))
      by (apply last_rated_below_agree; exact A1).
    split; [rewrite <- EL, <- W, <- W1; rewrite <- apply_holding_pass_over; exact Hap|].
    split; [rewrite W1; exact W|].
    intros g. apply window_iff_first_rated_above. exists m. exact Hsf.
Qed.

(* exactly once along the chain: among the blocks of the chain whose height is rated in the final state (the ones that
   ran a holding pass), at most one has g in its window ... *)
Theorem chain_held_height_at_most_one_block h0 bs s0 m0 sf mf g b1 b2 :
  increasing_from h0 bs -> replay c s0 m0 bs = Done (sf, mf) ->
  In b1 bs -> In b2 bs -> rated sf (b_height b1) -> rated sf (b_height b2) ->
  In g (window sf (b_height b1)) -> In g (window sf (b_height b2)) -> b1 = b2.
Proof.
  intros Hinc _ Hb1 Hb2 R1 R2 G1 G2.
  apply (increasing_from_height_inj bs h0 b1 b2 Hinc Hb1 Hb2).
  exact (held_height_in_one_window sf g _ _ R1 R2 G1 G2).
Qed.

(* ... and exactly one — the block at the least rated height above g — as soon as the chain has a rated block above g
   (g a height of the chain's era: h0 <= g + 1, so that every rated height above g belongs to a block of the chain) *)
Theorem chain_held_height_exactly_one_block h0 bs s0 m0 sf mf g b0 :
  increasing_from h0 bs -> (forall k, h0 <= k -> rates s0 !! k = None) ->
  replay c s0 m0 bs = Done (sf, mf) ->
  0 <= g -> h0 <= g + 1 -> In b0 bs -> g < b_height b0 -> rated sf (b_height b0) ->
  exists b, In b bs /\ first_rated_above sf g (b_height b) /\ b_height b <= b_height b0 /\
            In g (window sf (b_height b)) /\
            forall b', In b' bs -> rated sf (b_height b') -> In g (window sf (b_height b')) -> b' = b.
Proof.
  intros Hinc Hs0 H Hg Hh0 Hb0 Hlt R0.
  destruct (first_rated_above_exists sf g (b_height b0) Hg R0 Hlt) as (r & F & Hr).
  pose proof F as (Rr & Hgr & _).
  destruct (replay_new_rate_is_block bs s0 m0 sf mf r H (Hs0 r ltac:(lia)) Rr) as (b & Hb & <-).
  exists b. split; [exact Hb|]. split; [exact F|]. split; [exact Hr|].
  assert (G : In g (window sf (b_height b))) by (apply (window_iff_first_rated_above sf _ g Rr); auto).
  split; [exact G|].
  intros b' Hb' R' G'. exact (chain_held_height_at_most_one_block h0 bs s0 m0 sf mf g b' b Hinc H Hb' Hb R' Rr G' G).
Qed.

(* a block strictly between g and the first rated height above g is unrated in sf: by chain_holding_pass it ran no
   holding pass (the batch waits); a rated block after the first rated height does not have g in its window *)
Theorem chain_waits_until_first_rated sf g r k :
  first_rated_above sf g r -> (g < k < r -> rates sf !! k = None) /\ (r < k -> 0 <= r -> ~ In g (window sf k)).
Proof.
  intros (Rr & Hgr & M). split.
  - intros Hk. destruct (rated_dec sf k) as [Rk|N]; [|exact N]. specialize (M k Rk ltac:(lia)). lia.
  - intros Hk H0 G. apply window_spec in G. pose proof (last_rated_below_max sf k r Rr Hk). lia.
Qed.

End Chain.

Print Assumptions step_block_rated_dichotomy.
Print Assumptions chain_block_window.
Print Assumptions chain_holding_pass.
Print Assumptions chain_held_height_at_most_one_block.
Print Assumptions chain_held_height_exactly_one_block.
Print Assumptions chain_waits_until_first_rated.


(* ---- non-vacuity: the example chain (conversion 602 held at 102, block 103 unrated, executed at 104) ------------- *)
(* computed: in the final state 104 is the only rated height, its window is 0..103, it contains 102, and the batch
   602 entered at 102 carries the executing height 104 *)
Example ex_chain_window_computed :
  match replay ex_cfg genesis empty_cache ex_chain with
  | Done (s, _) =>
      is_rated s 104 && negb (is_rated s 103) && negb (is_rated s 102) && negb (is_rated s 101) &&
      (last_rated_below s 104 =? 0) && existsb (Z.eqb 102) (window s 104) &&
      (Nat.eqb (length (window s 104)) 104) &&
      existsb (fun r => (hb_hash r =? 602) && (hb_height r =? 102) && (hb_exec r =? 104)) (hist s)
  | _ => false
  end = true.
Proof. vm_compute. reflexivity. Qed.

Lemma ex_chain_increasing : increasing_from 100 ex_chain.
Proof. apply increasing_fromb_spec. vm_compute. reflexivity. Qed.

Definition b103 := ex_block 103 None (Some [ex_transfer 603 1000]) [].
Definition b104 := ex_block 104 (ex_opr 104 None) None [].
Lemma ex_split3 : ex_chain = firstn 3 ex_chain ++ b104 :: [].
Proof. reflexivity. Qed.
Lemma ex_split2 : ex_chain = firstn 2 ex_chain ++ b103 :: [b104].
Proof. reflexivity. Qed.

Example ex_chain_holding_pass :
  exists sf mf, replay ex_cfg genesis empty_cache ex_chain = Done (sf, mf) /\
    first_rated_above sf 102 104 /\ In 102 (window sf 104) /\ rates sf !! 103 = None /\
    (exists cm mem s' mem' m s1 s2,
        replay ex_cfg genesis empty_cache (firstn 3 ex_chain) = Done (cm, mem) /\
        step_block ex_cfg cm mem b104 = Done (s', mem') /\
        rates sf !! 104 = Some m /\ block_rated ex_cfg cm b104 /\
        holding_pass_over ex_cfg cm 104 s1 m
          (fst (get_averages cm (c_AveragePeriod ex_cfg) mem (last_rated_below sf 104))) (window sf 104) = Ok s2) /\
    (exists cm mem s' mem',
        replay ex_cfg genesis empty_cache (firstn 2 ex_chain) = Done (cm, mem) /\
        step_block ex_cfg cm mem b103 = Done (s', mem') /\
        ~ block_rated ex_cfg cm b103 /\ rates s' = rates cm).
Proof.
  pose proof ex_chain_window_computed as HC.
  destruct (replay ex_cfg genesis empty_cache ex_chain) as [[sf mf]| | |] eqn:E; [|discriminate HC..].
  exists sf, mf. split; [reflexivity|].
  repeat (apply andb_prop in HC as [HC ?]).
  assert (R104 : rated sf 104).
  { unfold is_rated in HC. unfold rated. destruct (rates sf !! 104) as [m|]; [eauto|discriminate HC]. }
  assert (N103 : rates sf !! 103 = None).
  { match goal with H : negb (is_rated sf 103) = true |- _ => unfold is_rated in H; destruct (rates sf !! 103); [discriminate H|reflexivity] end. }
  assert (G : In 102 (window sf 104)).
  { match goal with H : existsb (Z.eqb 102) _ = true |- _ => apply existsb_exists in H as (x & Hx & Ex) end.
    apply Z.eqb_eq in Ex. subst x. exact Hx. }
  pose proof (proj1 (window_iff_first_rated_above sf 104 102 R104) G) as (_ & F).
  split; [exact F|]. split; [exact G|]. split; [exact N103|].
  assert (Hg : forall k, 100 <= k -> rates genesis !! k = None) by (intros; apply lookup_empty).
  assert (T104 : c_TransactionConversionActivation ex_cfg <= b_height b104) by (vm_compute; discriminate).
  assert (T103 : c_TransactionConversionActivation ex_cfg <= b_height b103) by (vm_compute; discriminate).
  pose proof ex_chain_increasing as Hinc.
  split.
  - rewrite ex_split3 in E, Hinc.
    destruct (chain_holding_pass ex_cfg 100 genesis empty_cache _ _ _ sf mf Hinc Hg E T104)
      as (cm & mem & s' & mem' & Hpre & Hstep & _ & [(Hnone & _)|(m & s1 & s2 & Hsf & BR & _ & _ & _ & Hpass & _)]).
    + destruct R104 as (m & Hm). assert (X : Some m = None) by (transitivity (rates sf !! 104); [symmetry; exact Hm|exact Hnone]). discriminate X.
    + exists cm, mem, s', mem', m, s1, s2. change (b_height b104) with 104 in *. auto.
  - rewrite ex_split2 in E, Hinc.
    destruct (chain_holding_pass ex_cfg 100 genesis empty_cache _ _ _ sf mf Hinc Hg E T103)
      as (cm & mem & s' & mem' & Hpre & Hstep & _ & [(_ & NB & Er)|(m & s1 & s2 & Hsf & _)]).
    + exists cm, mem, s', mem'. auto.
    + assert (X : Some m = None) by (transitivity (rates sf !! 103); [symmetry; exact Hsf|exact N103]). discriminate X.
Qed.
Print Assumptions ex_chain_holding_pass.
