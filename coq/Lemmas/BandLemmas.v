(* Lemmas/BandLemmas.v — the binary64 tolerance band of Model/Band.v against the real-number rule
   (property C12).  Primitive floats are linked to Flocq's binary_float by Flocq.IEEE754.PrimFloat. *)
From Coq Require Import ZArith Reals Floats Uint63 Lia Lra Bool.
From Flocq Require Import Core Relative IEEE754.BinarySingleNaN IEEE754.PrimFloat.
From Model Require Import Base Band.
Open Scope Z_scope.

(* ---------- real value and finiteness of a primitive float ---------- *)
Definition FR (f : Floats.PrimFloat.float) : R := B2R (Prim2B f).
Definition ffin (f : Floats.PrimFloat.float) : bool := is_finite (Prim2B f).
Definition rnd (x : R) : R := round radix2 (fexp prec emax) ZnearestE x.
(* unit roundoff 2^-53 *)
Definition u53 : R := (/ 9007199254740992)%R.

Lemma fexp_FLT : fexp prec emax = FLT_exp (-1074) 53.
Proof. reflexivity. Qed.

Lemma bpow_lt_emax : forall e, e < 1024 -> (bpow radix2 e < bpow radix2 emax)%R.
Proof. intros e He. apply bpow_lt. exact He. Qed.

Lemma rnd_abs_le_bpow : forall z e, -1022 <= e -> (Rabs z <= bpow radix2 e)%R ->
  (Rabs (rnd z) <= bpow radix2 e)%R.
Proof.
  intros z e He Hz. unfold rnd. apply abs_round_le_generic; [apply fexp_correct; reflexivity| auto with typeclass_instances | | exact Hz].
  apply generic_format_bpow. unfold fexp, SpecFloat.emin, prec, emax. lia.
Qed.

Lemma rnd_no_overflow : forall z e, -1022 <= e < 1024 -> (Rabs z <= bpow radix2 e)%R ->
  Rlt_bool (Rabs (rnd z)) (bpow radix2 emax) = true.
Proof.
  intros z e He Hz. apply Rlt_bool_true. eapply Rle_lt_trans; [apply (rnd_abs_le_bpow z e); [lia|exact Hz]|].
  apply bpow_lt_emax. lia.
Qed.

(* relative error of one rounding, away from the subnormal range *)
Lemma rnd_rel : forall z, (z = 0 \/ / 4 <= Rabs z)%R ->
  exists d, (Rabs d <= u53)%R /\ rnd z = (z * (1 + d))%R.
Proof.
  intros z [Hz|Hz].
  - exists 0%R. split; [rewrite Rabs_R0; unfold u53; lra|]. subst z. unfold rnd. rewrite round_0; [lra|auto with typeclass_instances].
  - unfold rnd. rewrite fexp_FLT.
    destruct (relative_error_N_FLT_ex radix2 (-1074) 53 ltac:(reflexivity) (fun x => negb (Z.even x)) z) as [d [Hd Hr]].
    + eapply Rle_trans; [|exact Hz]. change (/4)%R with (/ (2 * 2))%R.
      replace (/ (2*2))%R with (bpow radix2 (-2)). apply bpow_le; lia. simpl. lra.
    + exists d. split; [|exact Hr]. eapply Rle_trans; [exact Hd|]. unfold u53. simpl. lra.
Qed.

(* ---------- the primitive operations, in the reals ---------- *)
Lemma mul_R : forall x y e, ffin x = true -> ffin y = true -> -1022 <= e < 1024 ->
  (Rabs (FR x * FR y) <= bpow radix2 e)%R ->
  FR (x * y) = rnd (FR x * FR y) /\ ffin (x * y) = true.
Proof.
  intros x y e Hx Hy He Hb. unfold FR, ffin in *. rewrite mul_equiv.
  generalize (Bmult_correct prec emax Hprec Hmax mode_NE (Prim2B x) (Prim2B y)).
  change (round radix2 (fexp prec emax) (round_mode mode_NE)) with rnd.
  rewrite (rnd_no_overflow _ e He Hb). intros [H1 [H2 _]]. split; [exact H1|]. rewrite H2, Hx, Hy. reflexivity.
Qed.

Lemma leb_R : forall x y, ffin x = true -> ffin y = true -> Floats.PrimFloat.leb x y = Rle_bool (FR x) (FR y).
Proof. intros x y Hx Hy. rewrite leb_equiv. apply Bleb_correct; assumption. Qed.

Lemma of_uint63_R : forall x, 0 <= x < two63 ->
  FR (Floats.PrimFloat.of_uint63 (Uint63.of_Z x)) = rnd (IZR x) /\ ffin (Floats.PrimFloat.of_uint63 (Uint63.of_Z x)) = true.
Proof.
  intros x Hx. unfold FR, ffin. rewrite of_int63_equiv.
  assert (Hto : Uint63.to_Z (Uint63.of_Z x) = x).
  { rewrite Uint63.of_Z_spec. apply Z.mod_small. unfold two63 in Hx. change wB with 9223372036854775808. lia. }
  rewrite Hto.
  generalize (binary_normalize_correct prec emax Hprec Hmax mode_NE x 0 false).
  cbv zeta. change (round radix2 (fexp prec emax) (round_mode mode_NE)) with rnd.
  assert (HF : F2R (Float radix2 x 0) = IZR x). { unfold F2R. simpl. lra. }
  rewrite HF. rewrite (rnd_no_overflow _ 63).
  - intros [H1 [H2 _]]. split; assumption.
  - lia.
  - rewrite Rabs_pos_eq; [|apply IZR_le; lia]. rewrite <- IZR_Zpower by lia. apply IZR_le. unfold two63 in Hx. change (radix2 ^ 63) with 9223372036854775808. lia.
Qed.

(* ---------- stage (a): float64(x) is exact below 2^53 ---------- *)
Lemma rnd_int_exact : forall x, Z.abs x < 2 ^ 53 -> rnd (IZR x) = IZR x.
Proof.
  intros x Hx. unfold rnd. apply round_generic; [auto with typeclass_instances|].
  rewrite fexp_FLT. apply generic_format_FLT. apply (FLT_spec radix2 (-1074) 53 (IZR x) (Float radix2 x 0)).
  - unfold F2R. simpl. lra.
  - simpl. exact Hx.
  - simpl. lia.
Qed.

Theorem f_of_Z_exact : forall x, 0 <= x < 2 ^ 53 -> FR (f_of_Z x) = IZR x /\ ffin (f_of_Z x) = true.
Proof.
  intros x Hx. unfold f_of_Z. assert (Hlt : x <? two63 = true) by (apply Z.ltb_lt; unfold two63; lia).
  rewrite Hlt. destruct (of_uint63_R x) as [H1 H2]; [unfold two63; lia|]. split; [|exact H2].
  rewrite H1. apply rnd_int_exact. lia.
Qed.

(* doubling a representable number below the overflow threshold is exact *)
Lemma rnd_double : forall z, rnd (rnd z * 2) = (rnd z * 2)%R.
Proof.
  intros z. unfold rnd at 1. apply round_generic; [auto with typeclass_instances|].
  assert (Hg : generic_format radix2 (fexp prec emax) (rnd z)).
  { unfold rnd. apply generic_format_round; [apply fexp_correct; reflexivity|auto with typeclass_instances]. }
  rewrite fexp_FLT in *. apply FLT_format_generic in Hg; [|reflexivity].
  destruct Hg as [[m e] Hv Hm He]. simpl in Hm, He.
  apply generic_format_FLT. apply (FLT_spec radix2 (-1074) 53 _ (Float radix2 m (e + 1))).
  - rewrite Hv. unfold F2R. cbn [Fnum Fexp]. rewrite bpow_plus. change (bpow radix2 1) with 2%R. lra.
  - simpl. exact Hm.
  - simpl. lia.
Qed.

(* the low bit folded into the sticky bit: exact description *)
Lemma lor_sticky : forall a b, 0 <= a -> 0 <= b <= 1 ->
  Z.lor a b = a \/ (Z.lor a b = a + 1 /\ b = 1 /\ exists k, a = 2 * k).
Proof.
  intros a b Ha Hb. assert (Hb' : b = 0 \/ b = 1) by lia. destruct Hb' as [-> | ->].
  - left. apply Z.lor_0_r.
  - destruct a as [|p|p]; [right; split; [reflexivity|split;[reflexivity|exists 0; reflexivity]]| |lia].
    destruct p as [q|q|].
    + left. reflexivity.
    + right. split; [change (Z.lor (Z.pos q~0) 1) with (Z.pos q~1); lia|]. split; [reflexivity|]. exists (Z.pos q). lia.
    + left. reflexivity.
Qed.

(* ---------- concrete constants ---------- *)
Lemma FR_const : forall c s m e, Prim2SF c = S754_finite s m e ->
  FR c = F2R (Float radix2 (cond_Zopp s (Zpos m)) e) /\ ffin c = true.
Proof.
  intros c s m e H. unfold FR, ffin, Prim2B. rewrite B2R_SF2B, is_finite_SF2B.
  generalize (Prim2SF_valid c). rewrite H. intros _. split; reflexivity.
Qed.

Ltac bpow_const := unfold bpow; repeat match goal with |- context [Zpower_pos ?r ?p] =>
  let v := eval vm_compute in (Zpower_pos r p) in change (Zpower_pos r p) with v end.

Lemma FR_two : FR 2%float = 2%R /\ ffin 2%float = true.
Proof.
  destruct (FR_const 2%float false 4503599627370496 (-51) ltac:(vm_compute; reflexivity)) as [H1 H2].
  split; [|exact H2]. rewrite H1. unfold F2R. cbn [Fnum Fexp cond_Zopp]. bpow_const. lra.
Qed.

(* ---------- stages (c), (d): float64(x) for every uint64 x, one relative error ---------- *)
(* 2^-53 + 2^-62 : one rounding, plus the folded low bit above 2^63 *)
Definition e64 : R := (u53 + / 4611686018427387904)%R.

Lemma f_of_Z_low : forall x, 0 <= x < two63 -> FR (f_of_Z x) = rnd (IZR x) /\ ffin (f_of_Z x) = true.
Proof.
  intros x Hx. unfold f_of_Z. assert (Hlt : x <? two63 = true) by (apply Z.ltb_lt; lia).
  rewrite Hlt. apply of_uint63_R. exact Hx.
Qed.

Lemma f_of_Z_high : forall x, two63 <= x < two64 ->
  let y := Z.lor (x / 2) (x mod 2) in
  0 <= y < two63 /\ Z.abs (2 * y - x) <= 1 /\
  FR (f_of_Z x) = (rnd (IZR y) * 2)%R /\ ffin (f_of_Z x) = true.
Proof.
  intros x Hx y. unfold two63, two64 in Hx.
  assert (Hy : 0 <= y < two63 /\ Z.abs (2 * y - x) <= 1).
  { unfold two63. subst y. assert (Hd : x = 2 * (x / 2) + x mod 2) by (apply Z.div_mod; lia).
    assert (Hm : 0 <= x mod 2 < 2) by (apply Z.mod_pos_bound; lia).
    destruct (lor_sticky (x / 2) (x mod 2)) as [He | [He [Hb [k Hk]]]]; [lia|lia| |]; rewrite He; lia. }
  destruct Hy as [Hy1 Hy2]. split; [exact Hy1|]. split; [exact Hy2|].
  unfold f_of_Z. assert (Hlt : x <? two63 = false) by (apply Z.ltb_ge; unfold two63; lia).
  rewrite Hlt. fold y. destruct (of_uint63_R y Hy1) as [Hv Hf]. destruct FR_two as [H2 F2].
  destruct (mul_R (Floats.PrimFloat.of_uint63 (Uint63.of_Z y)) 2%float 64 Hf F2 ltac:(lia)) as [Hm1 Hm2].
  - rewrite Hv, H2. rewrite Rabs_mult. rewrite (Rabs_pos_eq 2) by lra.
    change 64 with (63 + 1). rewrite bpow_plus. change (bpow radix2 1) with 2%R.
    apply Rmult_le_compat_r; [lra|]. apply rnd_abs_le_bpow; [lia|].
    rewrite Rabs_pos_eq; [|apply IZR_le; lia]. rewrite <- IZR_Zpower by lia. apply IZR_le.
    unfold two63 in Hy1. change (radix2 ^ 63) with 9223372036854775808. lia.
  - split; [|exact Hm2]. rewrite Hm1, Hv, H2. apply rnd_double.
Qed.

Lemma u53_pos : (0 < u53 < / 1000)%R.
Proof. unfold u53. lra. Qed.

Theorem f_of_Z_rel : forall x, 0 <= x < two64 ->
  ffin (f_of_Z x) = true /\ exists d, (Rabs d <= e64)%R /\ FR (f_of_Z x) = (IZR x * (1 + d))%R.
Proof.
  intros x Hx. destruct (Z_lt_le_dec x two63) as [Hlo|Hhi].
  - destruct (f_of_Z_low x ltac:(lia)) as [Hv Hf]. split; [exact Hf|].
    destruct (rnd_rel (IZR x)) as [d [Hd Hr]].
    { destruct (Z.eq_dec x 0) as [->|Hnz]; [left; reflexivity|right].
      rewrite Rabs_pos_eq; [|apply IZR_le; lia]. assert (1 <= IZR x)%R by (apply IZR_le; lia). lra. }
    exists d. split; [unfold e64; lra|]. rewrite Hv. exact Hr.
  - destruct (f_of_Z_high x ltac:(lia)) as [Hy1 [Hy2 [Hv Hf]]]. split; [exact Hf|].
    set (y := Z.lor (x / 2) (x mod 2)) in *.
    destruct (rnd_rel (IZR y)) as [d [Hd Hr]].
    { right. assert (two63 <= 2 * y + 1) by lia. unfold two63 in *. rewrite Rabs_pos_eq; [|apply IZR_le; lia].
      assert (1 <= IZR y)%R by (apply IZR_le; lia). lra. }
    assert (HX : (9223372036854775808 <= IZR x)%R) by (apply IZR_le; unfold two63 in Hhi; lia).
    assert (Hdl : (-1 <= 2 * IZR y - IZR x <= 1)%R).
    { rewrite <- mult_IZR, <- minus_IZR. split; apply IZR_le; lia. }
    exists ((IZR y * (1 + d) * 2 - IZR x) / IZR x)%R. split.
    + pose proof u53_pos as Hu. apply Rabs_le_inv in Hd.
      replace ((IZR y * (1 + d) * 2 - IZR x) / IZR x)%R with (d + (2 * IZR y - IZR x) * (1 + d) / IZR x)%R by (field; lra).
      eapply Rle_trans; [apply Rabs_triang|]. unfold e64. apply Rplus_le_compat; [apply Rabs_le; lra|].
      unfold Rdiv. rewrite Rabs_mult. rewrite (Rabs_pos_eq (/ IZR x)); [|apply Rlt_le, Rinv_0_lt_compat; lra].
      apply Rle_trans with (2 * / IZR x)%R.
      * apply Rmult_le_compat_r; [apply Rlt_le, Rinv_0_lt_compat; lra|]. apply Rabs_le. split; nra.
      * apply Rle_trans with (2 * / 9223372036854775808)%R; [|lra].
        apply Rmult_le_compat_l; [lra|]. apply Rinv_le_contravar; lra.
    + rewrite Hv, Hr. field. lra.
Qed.

Lemma e64_bounds : (0 < e64 < / 1000)%R.
Proof. unfold e64, u53. lra. Qed.

(* ---------- the band test, in the reals ---------- *)
Lemma in_band_R : forall tol cl ch o s,
  FR (1 + tol)%float = ch -> ffin (1 + tol)%float = true ->
  FR (1 - tol)%float = cl -> ffin (1 - tol)%float = true ->
  (/ 2 <= cl <= 2)%R -> (/ 2 <= ch <= 2)%R ->
  0 <= o < two64 -> 0 < s < two64 ->
  exists d_o d_s d_l d_h,
    (Rabs d_o <= e64 /\ Rabs d_s <= e64 /\ Rabs d_l <= u53 /\ Rabs d_h <= u53)%R /\
    in_band tol o s =
      (Rle_bool (IZR s * (1 + d_s) * cl * (1 + d_l)) (IZR o * (1 + d_o)) &&
       Rle_bool (IZR o * (1 + d_o)) (IZR s * (1 + d_s) * ch * (1 + d_h)))%bool.
Proof.
  intros tol cl ch o s Hch Fch Hcl Fcl Bcl Bch Ho Hs.
  destruct (f_of_Z_rel o Ho) as [Fo [d_o [Bo Vo]]].
  destruct (f_of_Z_rel s ltac:(lia)) as [Fs [d_s [Bs Vs]]].
  pose proof e64_bounds as He.
  assert (HS : (1 <= IZR s <= 18446744073709551616)%R) by (unfold two64 in Hs; split; apply IZR_le; lia).
  pose proof (Rabs_le_inv _ _ Bs) as Bs'.
  assert (Hfs : (/ 2 <= FR (f_of_Z s) <= bpow radix2 65)%R).
  { rewrite Vs. change (bpow radix2 65) with (IZR (2 ^ 65)). change (2 ^ 65) with 36893488147419103232. split; nra. }
  assert (Hmul : forall c v, FR c = v -> ffin c = true -> (/ 2 <= v <= 2)%R ->
     ffin (f_of_Z s * c)%float = true /\ exists d, (Rabs d <= u53)%R /\
     FR (f_of_Z s * c)%float = (IZR s * (1 + d_s) * v * (1 + d))%R).
  { intros c v Hv Fc Bv. destruct (mul_R (f_of_Z s) c 66 Fs Fc ltac:(lia)) as [Hm Fm].
    - rewrite Hv. rewrite Rabs_pos_eq by nra. change 66 with (65 + 1). rewrite bpow_plus.
      change (bpow radix2 1) with 2%R. apply Rmult_le_compat; lra.
    - split; [exact Fm|]. destruct (rnd_rel (FR (f_of_Z s) * FR c)%R) as [d [Bd Hr]].
      + right. rewrite Hv. rewrite Rabs_pos_eq by nra. nra.
      + exists d. split; [exact Bd|]. rewrite Hm, Hr, Hv, Vs. reflexivity. }
  destruct (Hmul _ _ Hch Fch Bch) as [Fhi [d_h [Bh Vh]]].
  destruct (Hmul _ _ Hcl Fcl Bcl) as [Flo [d_l [Bl Vl]]].
  exists d_o, d_s, d_l, d_h. split; [repeat split; assumption|].
  unfold in_band. cbv zeta. rewrite (leb_R _ _ Flo Fo), (leb_R _ _ Fo Fhi). rewrite Vl, Vh, Vo. reflexivity.
Qed.

(* ---------- the sandwich, pure real arithmetic ---------- *)
Lemma real_sound : forall e u T eps cl ch O S d_o d_s d_l d_h,
  (0 < e < / 1000)%R -> (0 < u < / 1000)%R -> (0 <= O)%R -> (0 < S)%R -> (0 < cl)%R -> (0 < ch)%R ->
  (Rabs d_o <= e)%R -> (Rabs d_s <= e)%R -> (Rabs d_l <= u)%R -> (Rabs d_h <= u)%R ->
  ((1 + e) * ch * (1 + u) <= (1 + T + eps) * (1 - e))%R ->
  ((1 - T - eps) * (1 + e) <= (1 - e) * cl * (1 - u))%R ->
  (S * (1 + d_s) * cl * (1 + d_l) <= O * (1 + d_o))%R ->
  (O * (1 + d_o) <= S * (1 + d_s) * ch * (1 + d_h))%R ->
  (Rabs (O - S) <= (T + eps) * S)%R.
Proof.
  intros e u T eps cl ch O S d_o d_s d_l d_h He Hu HO HS Hcl Hch Bo Bs Bl Bh K1 K2 Hlo Hhi.
  apply Rabs_le_inv in Bo, Bs, Bl, Bh.
  assert (Hup : ((1 + d_s) * (1 + d_h) <= (1 + e) * (1 + u))%R) by nra.
  assert (Hdn : ((1 - e) * (1 - u) <= (1 + d_s) * (1 + d_l))%R) by nra.
  assert (HSc : (0 < S * ch)%R) by nra. assert (HSl : (0 < S * cl)%R) by nra.
  apply Rabs_le. split.
  - (* S - O <= (T+eps) S *)
    assert (H1 : (S * cl * ((1 - e) * (1 - u)) <= O * (1 + e))%R).
    { apply Rle_trans with (S * cl * ((1 + d_s) * (1 + d_l)))%R; [apply Rmult_le_compat_l; lra|].
      apply Rle_trans with (O * (1 + d_o))%R; [lra|]. apply Rmult_le_compat_l; lra. }
    assert (H2 : (S * ((1 - T - eps) * (1 + e)) <= O * (1 + e))%R).
    { apply Rle_trans with (S * ((1 - e) * cl * (1 - u)))%R; [apply Rmult_le_compat_l; lra|lra]. }
    assert (H3 : (S * (1 - T - eps) <= O)%R).
    { apply Rmult_le_reg_r with (1 + e)%R; lra. }
    lra.
  - assert (H1 : (O * (1 - e) <= S * ch * ((1 + e) * (1 + u)))%R).
    { apply Rle_trans with (O * (1 + d_o))%R; [apply Rmult_le_compat_l; lra|].
      apply Rle_trans with (S * ch * ((1 + d_s) * (1 + d_h)))%R; [lra|]. apply Rmult_le_compat_l; lra. }
    assert (H2 : (O * (1 - e) <= S * ((1 + T + eps) * (1 - e)))%R).
    { apply Rle_trans with (S * ((1 + e) * ch * (1 + u)))%R; [lra|apply Rmult_le_compat_l; lra]. }
    assert (H3 : (O <= S * (1 + T + eps))%R).
    { apply Rmult_le_reg_r with (1 - e)%R; lra. }
    lra.
Qed.

Lemma real_complete : forall e u T eps cl ch O S d_o d_s d_l d_h,
  (0 < e < / 1000)%R -> (0 < u < / 1000)%R -> (0 <= O)%R -> (0 < S)%R -> (0 < cl)%R -> (0 < ch)%R ->
  (Rabs d_o <= e)%R -> (Rabs d_s <= e)%R -> (Rabs d_l <= u)%R -> (Rabs d_h <= u)%R ->
  ((1 + T - eps) * (1 + e) <= (1 - e) * ch * (1 - u))%R ->
  ((1 + e) * cl * (1 + u) <= (1 - T + eps) * (1 - e))%R ->
  (Rabs (O - S) <= (T - eps) * S)%R ->
  (S * (1 + d_s) * cl * (1 + d_l) <= O * (1 + d_o))%R /\
  (O * (1 + d_o) <= S * (1 + d_s) * ch * (1 + d_h))%R.
Proof.
  intros e u T eps cl ch O S d_o d_s d_l d_h He Hu HO HS Hcl Hch Bo Bs Bl Bh K1 K2 Habs.
  apply Rabs_le_inv in Bo, Bs, Bl, Bh, Habs.
  assert (Hup : ((1 + d_s) * (1 + d_l) <= (1 + e) * (1 + u))%R) by nra.
  assert (Hdn : ((1 - e) * (1 - u) <= (1 + d_s) * (1 + d_h))%R) by nra.
  assert (HSc : (0 < S * ch)%R) by nra. assert (HSl : (0 < S * cl)%R) by nra.
  split.
  - apply Rle_trans with (S * cl * ((1 + e) * (1 + u)))%R.
    { replace (S * (1 + d_s) * cl * (1 + d_l))%R with (S * cl * ((1 + d_s) * (1 + d_l)))%R by ring.
      apply Rmult_le_compat_l; lra. }
    apply Rle_trans with (S * ((1 - T + eps) * (1 - e)))%R.
    { replace (S * cl * ((1 + e) * (1 + u)))%R with (S * ((1 + e) * cl * (1 + u)))%R by ring.
      apply Rmult_le_compat_l; lra. }
    apply Rle_trans with (O * (1 - e))%R.
    { replace (S * ((1 - T + eps) * (1 - e)))%R with (S * (1 - T + eps) * (1 - e))%R by ring.
      apply Rmult_le_compat_r; lra. }
    apply Rmult_le_compat_l; lra.
  - apply Rle_trans with (O * (1 + e))%R; [apply Rmult_le_compat_l; lra|].
    apply Rle_trans with (S * (1 + T - eps) * (1 + e))%R; [apply Rmult_le_compat_r; lra|].
    apply Rle_trans with (S * ((1 - e) * ch * (1 - u)))%R.
    { replace (S * (1 + T - eps) * (1 + e))%R with (S * ((1 + T - eps) * (1 + e)))%R by ring.
      apply Rmult_le_compat_l; lra. }
    replace (S * ((1 - e) * ch * (1 - u)))%R with (S * ch * ((1 - e) * (1 - u)))%R by ring.
    replace (S * (1 + d_s) * ch * (1 + d_h))%R with (S * ch * ((1 + d_s) * (1 + d_h)))%R by ring.
    apply Rmult_le_compat_l; lra.
Qed.

Lemma Rle_bool_true_inv : forall x y, Rle_bool x y = true -> (x <= y)%R.
Proof. intros x y H. destruct (Rle_bool_spec x y) as [Hle|Hgt]; [exact Hle|discriminate H]. Qed.

(* ---------- the general statements, for any tolerance whose 1 +/- tol are known ---------- *)
Theorem band_sound_gen : forall tol T eps cl ch o s,
  FR (1 + tol)%float = ch -> ffin (1 + tol)%float = true ->
  FR (1 - tol)%float = cl -> ffin (1 - tol)%float = true ->
  (/ 2 <= cl <= 2)%R -> (/ 2 <= ch <= 2)%R ->
  ((1 + e64) * ch * (1 + u53) <= (1 + T + eps) * (1 - e64))%R ->
  ((1 - T - eps) * (1 + e64) <= (1 - e64) * cl * (1 - u53))%R ->
  0 <= o < two64 -> 0 < s < two64 -> in_band tol o s = true ->
  (Rabs (IZR o - IZR s) <= (T + eps) * IZR s)%R.
Proof.
  intros tol T eps cl ch o s Hch Fch Hcl Fcl Bcl Bch K1 K2 Ho Hs Hin.
  destruct (in_band_R tol cl ch o s Hch Fch Hcl Fcl Bcl Bch Ho Hs) as [d_o [d_s [d_l [d_h [[Bo [Bs [Bl Bh]]] Heq]]]]].
  rewrite Heq in Hin. apply andb_true_iff in Hin. destruct Hin as [Hlo Hhi].
  apply Rle_bool_true_inv in Hlo, Hhi.
  apply (real_sound e64 u53 T eps cl ch (IZR o) (IZR s) d_o d_s d_l d_h); try assumption;
    try apply e64_bounds; try apply u53_pos; try lra.
  - apply IZR_le; lia.
  - apply IZR_lt; lia.
Qed.

Theorem band_complete_gen : forall tol T eps cl ch o s,
  FR (1 + tol)%float = ch -> ffin (1 + tol)%float = true ->
  FR (1 - tol)%float = cl -> ffin (1 - tol)%float = true ->
  (/ 2 <= cl <= 2)%R -> (/ 2 <= ch <= 2)%R ->
  ((1 + T - eps) * (1 + e64) <= (1 - e64) * ch * (1 - u53))%R ->
  ((1 + e64) * cl * (1 + u53) <= (1 - T + eps) * (1 - e64))%R ->
  0 <= o < two64 -> 0 < s < two64 ->
  (Rabs (IZR o - IZR s) <= (T - eps) * IZR s)%R -> in_band tol o s = true.
Proof.
  intros tol T eps cl ch o s Hch Fch Hcl Fcl Bcl Bch K1 K2 Ho Hs Habs.
  destruct (in_band_R tol cl ch o s Hch Fch Hcl Fcl Bcl Bch Ho Hs) as [d_o [d_s [d_l [d_h [[Bo [Bs [Bl Bh]]] Heq]]]]].
  rewrite Heq. 
  destruct (real_complete e64 u53 T eps cl ch (IZR o) (IZR s) d_o d_s d_l d_h) as [Hlo Hhi]; try assumption;
    try apply e64_bounds; try apply u53_pos; try lra.
  - apply IZR_le; lia.
  - apply IZR_lt; lia.
  - apply andb_true_iff. split; apply Rle_bool_true; assumption.
Qed.

(* ---------- the four tolerances of node/sync.go ---------- *)
(* eps = 2^-50 *)
Definition eps50 : R := (/ 1125899906842624)%R.

Ltac const_val m e :=
  match goal with |- FR ?c = _ /\ ffin ?c = true =>
    let H1 := fresh "H1" in let H2 := fresh "H2" in
    destruct (FR_const c false m e ltac:(vm_compute; reflexivity)) as [H1 H2];
    split; [|exact H2]; rewrite H1; unfold F2R; cbn [Fnum Fexp cond_Zopp]; bpow_const; lra
  end.

Lemma hi_10 : FR (1 + tol_10)%float = (4953959590107546 / 4503599627370496)%R /\ ffin (1 + tol_10)%float = true.
Proof. const_val 4953959590107546%positive (-52). Qed.
Lemma lo_10 : FR (1 - tol_10)%float = (8106479329266893 / 9007199254740992)%R /\ ffin (1 - tol_10)%float = true.
Proof. const_val 8106479329266893%positive (-53). Qed.
Lemma hi_25 : FR (1 + tol_25)%float = (5 / 4)%R /\ ffin (1 + tol_25)%float = true.
Proof. const_val 5629499534213120%positive (-52). Qed.
Lemma lo_25 : FR (1 - tol_25)%float = (3 / 4)%R /\ ffin (1 - tol_25)%float = true.
Proof. const_val 6755399441055744%positive (-53). Qed.
Lemma hi_1 : FR (1 + tol_1)%float = (4548635623644201 / 4503599627370496)%R /\ ffin (1 + tol_1)%float = true.
Proof. const_val 4548635623644201%positive (-52). Qed.
Lemma lo_1 : FR (1 - tol_1)%float = (8917127262193582 / 9007199254740992)%R /\ ffin (1 - tol_1)%float = true.
Proof. const_val 8917127262193582%positive (-53). Qed.
Lemma hi_01 : FR (1 + tol_01)%float = (4508103226997866 / 4503599627370496)%R /\ ffin (1 + tol_01)%float = true.
Proof. const_val 4508103226997866%positive (-52). Qed.
Lemma lo_01 : FR (1 - tol_01)%float = (8998192055486251 / 9007199254740992)%R /\ ffin (1 - tol_01)%float = true.
Proof. const_val 8998192055486251%positive (-53). Qed.

Ltac sound_inst Hhi Hlo :=
  let o := fresh "o" in let s := fresh "s" in let Ho := fresh "Ho" in let Hs := fresh "Hs" in let Hin := fresh "Hin" in
  intros o s Ho Hs Hin; change (2 ^ 64) with two64 in Ho, Hs;
  destruct Hhi as [Vh Fh]; destruct Hlo as [Vl Fl];
  eapply (band_sound_gen _ _ eps50 _ _ o s Vh Fh Vl Fl); try assumption;
  unfold e64, u53, eps50; lra.

Ltac complete_inst T Hhi Hlo :=
  let o := fresh "o" in let s := fresh "s" in let Ho := fresh "Ho" in let Hs := fresh "Hs" in let Hin := fresh "Hin" in
  intros o s Ho Hs Hin; change (2 ^ 64) with two64 in Ho, Hs;
  destruct Hhi as [Vh Fh]; destruct Hlo as [Vl Fl];
  apply (band_complete_gen _ T eps50 _ _ o s Vh Fh Vl Fl); try assumption;
  unfold e64, u53, eps50; lra.

Theorem band_sound_10 : forall o s, 0 <= o < 2 ^ 64 -> 0 < s < 2 ^ 64 -> in_band tol_10 o s = true ->
  (Rabs (IZR o - IZR s) <= (1 / 10 + eps50) * IZR s)%R.
Proof. sound_inst hi_10 lo_10. Qed.
Theorem band_complete_10 : forall o s, 0 <= o < 2 ^ 64 -> 0 < s < 2 ^ 64 ->
  (Rabs (IZR o - IZR s) <= (1 / 10 - eps50) * IZR s)%R -> in_band tol_10 o s = true.
Proof. complete_inst (1 / 10)%R hi_10 lo_10. Qed.

Theorem band_sound_25 : forall o s, 0 <= o < 2 ^ 64 -> 0 < s < 2 ^ 64 -> in_band tol_25 o s = true ->
  (Rabs (IZR o - IZR s) <= (1 / 4 + eps50) * IZR s)%R.
Proof. sound_inst hi_25 lo_25. Qed.
Theorem band_complete_25 : forall o s, 0 <= o < 2 ^ 64 -> 0 < s < 2 ^ 64 ->
  (Rabs (IZR o - IZR s) <= (1 / 4 - eps50) * IZR s)%R -> in_band tol_25 o s = true.
Proof. complete_inst (1 / 4)%R hi_25 lo_25. Qed.

Theorem band_sound_1 : forall o s, 0 <= o < 2 ^ 64 -> 0 < s < 2 ^ 64 -> in_band tol_1 o s = true ->
  (Rabs (IZR o - IZR s) <= (1 / 100 + eps50) * IZR s)%R.
Proof. sound_inst hi_1 lo_1. Qed.
Theorem band_complete_1 : forall o s, 0 <= o < 2 ^ 64 -> 0 < s < 2 ^ 64 ->
  (Rabs (IZR o - IZR s) <= (1 / 100 - eps50) * IZR s)%R -> in_band tol_1 o s = true.
Proof. complete_inst (1 / 100)%R hi_1 lo_1. Qed.

Theorem band_sound_01 : forall o s, 0 <= o < 2 ^ 64 -> 0 < s < 2 ^ 64 -> in_band tol_01 o s = true ->
  (Rabs (IZR o - IZR s) <= (1 / 1000 + eps50) * IZR s)%R.
Proof. sound_inst hi_01 lo_01. Qed.
Theorem band_complete_01 : forall o s, 0 <= o < 2 ^ 64 -> 0 < s < 2 ^ 64 ->
  (Rabs (IZR o - IZR s) <= (1 / 1000 - eps50) * IZR s)%R -> in_band tol_01 o s = true.
Proof. complete_inst (1 / 1000)%R hi_01 lo_01. Qed.

(* the four tolerances with their real values *)
Inductive band_tol : Floats.PrimFloat.float -> R -> Prop :=
  | band_tol_10 : band_tol tol_10 (1 / 10)%R
  | band_tol_25 : band_tol tol_25 (1 / 4)%R
  | band_tol_1  : band_tol tol_1 (1 / 100)%R
  | band_tol_01 : band_tol tol_01 (1 / 1000)%R.

(* C12, the numeric sandwich: the binary64 band test lies between the real-number rules with
   tolerance T - 2^-50 and T + 2^-50, for every pair of uint64 quotes *)
Theorem band_sound : forall tol T o s, band_tol tol T ->
  0 <= o < 2 ^ 64 -> 0 < s < 2 ^ 64 -> in_band tol o s = true ->
  (Rabs (IZR o - IZR s) <= (T + eps50) * IZR s)%R.
Proof.
  intros tol T o s HT. destruct HT; [apply band_sound_10|apply band_sound_25|apply band_sound_1|apply band_sound_01].
Qed.
Print Assumptions band_sound.

Theorem band_complete : forall tol T o s, band_tol tol T ->
  0 <= o < 2 ^ 64 -> 0 < s < 2 ^ 64 ->
  (Rabs (IZR o - IZR s) <= (T - eps50) * IZR s)%R -> in_band tol o s = true.
Proof.
  intros tol T o s HT. destruct HT; [apply band_complete_10|apply band_complete_25|apply band_complete_1|apply band_complete_01].
Qed.
Print Assumptions band_complete.

(* contrapositive forms: what a rejected / an accepted quote tells *)
Corollary band_reject : forall tol T o s, band_tol tol T ->
  0 <= o < 2 ^ 64 -> 0 < s < 2 ^ 64 -> in_band tol o s = false ->
  ((T - eps50) * IZR s < Rabs (IZR o - IZR s))%R.
Proof.
  intros tol T o s HT Ho Hs Hin. apply Rnot_le_lt. intros Hle.
  rewrite (band_complete tol T o s HT Ho Hs Hle) in Hin. discriminate Hin.
Qed.

Print Assumptions f_of_Z_exact.
Print Assumptions f_of_Z_rel.

(* ---------- the 25% band is EXACT on the practical range ---------- *)
(* 1 +/- 0.25 are binary64 numbers and 5s/4, 3s/4 are representable for s < 2^50, so nothing rounds:
   there the code keeps the OPR quote iff 4|o - s| <= s, i.e. iff |o - s| <= s/4 in the reals *)
Lemma rnd_quarters_exact : forall k, Z.abs k < 2 ^ 53 -> rnd (IZR k / 4) = (IZR k / 4)%R.
Proof.
  intros k Hk. unfold rnd. apply round_generic; [auto with typeclass_instances|].
  rewrite fexp_FLT. apply generic_format_FLT. apply (FLT_spec radix2 (-1074) 53 _ (Float radix2 k (-2))).
  - unfold F2R. cbn [Fnum Fexp]. bpow_const. lra.
  - cbn [Fnum]. exact Hk.
  - cbn [Fexp]. lia.
Qed.

Lemma Rle_bool_Z : forall a b, Rle_bool (IZR a / 4) (IZR b) = (a <=? 4 * b).
Proof.
  intros a b. destruct (Rle_bool_spec (IZR a / 4) (IZR b)) as [H|H]; destruct (Z.leb_spec a (4 * b)) as [H'|H']; try reflexivity; exfalso.
  - apply IZR_lt in H'. rewrite mult_IZR in H'. lra.
  - apply IZR_le in H'. rewrite mult_IZR in H'. lra.
Qed.

Lemma Rle_bool_Z' : forall a b, Rle_bool (IZR b) (IZR a / 4) = (4 * b <=? a).
Proof.
  intros a b. destruct (Rle_bool_spec (IZR b) (IZR a / 4)) as [H|H]; destruct (Z.leb_spec (4 * b) a) as [H'|H']; try reflexivity; exfalso.
  - apply IZR_lt in H'. rewrite mult_IZR in H'. lra.
  - apply IZR_le in H'. rewrite mult_IZR in H'. lra.
Qed.

Theorem band_25_exact : forall o s, 0 <= o < 2 ^ 53 -> 0 < s < 2 ^ 50 ->
  in_band tol_25 o s = (4 * Z.abs (o - s) <=? s).
Proof.
  intros o s Ho Hs. destruct (f_of_Z_exact o Ho) as [Vo Fo]. destruct (f_of_Z_exact s ltac:(lia)) as [Vs Fs].
  destruct hi_25 as [Vh Fh]. destruct lo_25 as [Vl Fl].
  assert (HS : (1 <= IZR s <= 1125899906842624)%R) by (split; apply IZR_le; lia).
  assert (Hmul : forall c (k : Z), FR c = (IZR k / 4)%R -> ffin c = true -> 0 < k <= 5 ->
     ffin (f_of_Z s * c)%float = true /\ FR (f_of_Z s * c)%float = (IZR (k * s) / 4)%R).
  { intros c k Hv Fc Hk. assert (HK : (0 < IZR k <= 5)%R) by (split; [apply IZR_lt|apply IZR_le]; lia).
    destruct (mul_R (f_of_Z s) c 60 Fs Fc ltac:(lia)) as [Hm Fm].
    - rewrite Hv, Vs. rewrite Rabs_pos_eq by nra. change (bpow radix2 60) with (IZR (2 ^ 60)).
      change (2 ^ 60) with 1152921504606846976. nra.
    - split; [exact Fm|]. rewrite Hm, Hv, Vs.
      replace (IZR s * (IZR k / 4))%R with (IZR (k * s) / 4)%R by (rewrite mult_IZR; field).
      apply rnd_quarters_exact. nia. }
  destruct (Hmul _ 5 Vh Fh ltac:(lia)) as [Fhi Vhi]. destruct (Hmul _ 3 Vl Fl ltac:(lia)) as [Flo Vlo].
  unfold in_band. cbv zeta. rewrite (leb_R _ _ Flo Fo), (leb_R _ _ Fo Fhi). rewrite Vlo, Vhi, Vo.
  rewrite Rle_bool_Z, Rle_bool_Z'.
  destruct (Z.leb_spec (3 * s) (4 * o)) as [H1|H1]; destruct (Z.leb_spec (4 * o) (5 * s)) as [H2|H2];
    destruct (Z.leb_spec (4 * Z.abs (o - s)) s) as [H3|H3]; cbn [andb]; try reflexivity; exfalso; lia.
Qed.
Print Assumptions band_25_exact.

(* ---------- closed examples (vm_compute on the primitive floats) ---------- *)
(* the band edges at s = 100000.  NOTE the 0.1% band: 1 + 0.001 rounds BELOW 1001/1000 in binary64
   (hi_01: 4508103226997866 / 2^52 < 1001/1000), so the quote exactly 0.1% above the SPR value is
   rejected by the code although |o - s| = s/1000: the real-number rule "kept iff |o - s| <= T * s"
   is false of the code at that edge, and band_complete cannot hold with eps = 0. *)
Example band_edges_01 :
  in_band tol_01 100100 100000 = false /\ in_band tol_01 100099 100000 = true /\
  in_band tol_01 99900 100000 = true /\ in_band tol_01 99899 100000 = false.
Proof. vm_compute. repeat split; reflexivity. Qed.
Example band_edges_1 :
  in_band tol_1 101000 100000 = true /\ in_band tol_1 101001 100000 = false /\
  in_band tol_1 99000 100000 = true /\ in_band tol_1 98999 100000 = false.
Proof. vm_compute. repeat split; reflexivity. Qed.
Example band_edges_10 :
  in_band tol_10 110000 100000 = true /\ in_band tol_10 110001 100000 = false /\
  in_band tol_10 90000 100000 = true /\ in_band tol_10 89999 100000 = false.
Proof. vm_compute. repeat split; reflexivity. Qed.
Example band_edges_25 :
  in_band tol_25 125000 100000 = true /\ in_band tol_25 125001 100000 = false /\
  in_band tol_25 75000 100000 = true /\ in_band tol_25 74999 100000 = false.
Proof. vm_compute. repeat split; reflexivity. Qed.
(* band_sound cannot hold with eps = 0 either: above 2^53 the conversions round, and a quote
   strictly more than 10% above the SPR value is kept *)
Example band_sound_needs_eps :
  in_band tol_10 6306855386940901 5733504897219000 = true /\
  10 * (6306855386940901 - 5733504897219000) > 5733504897219000.
Proof. split; [vm_compute; reflexivity|lia]. Qed.
(* the top of the uint64 range *)
Example band_top : in_band tol_10 18446744073709551615 18446744073709551615 = true /\
  in_band tol_25 18446744073709551615 14757395258967641292 = true.
Proof. vm_compute. split; reflexivity. Qed.
(* f_of_Z above 2^63 is the correctly rounded float64(x): the sticky bit decides the near-ties
   (2^63+1025 rounds up to 2^63+2048, the tie 2^63+1024 goes to even 2^63, 2^64-1 rounds to 2^64) *)
Example f_of_Z_sticky :
  f_of_Z (2 ^ 63 + 1025) = f_of_Z (2 ^ 63 + 2048) /\ f_of_Z (2 ^ 63 + 1024) = f_of_Z (2 ^ 63) /\
  f_of_Z (2 ^ 63 + 3072) = f_of_Z (2 ^ 63 + 4096) /\
  Prim2SF (f_of_Z (2 ^ 64 - 1)) = S754_finite false 4503599627370496 12.
Proof. vm_compute. repeat split; reflexivity. Qed.
