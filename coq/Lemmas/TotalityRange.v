(* Lemmas/TotalityRange.v — the range of the balance cells is an invariant of the block function: if a
   block is applied, every cell is again in [0, max_int64] ([bal_room _ 0]).  (A cell that would leave
   the range makes the model Stuck with E_OVERFLOW_CELL: AddToBalance checks it.)  Together with
   TotalityInvariant.v: both state hypotheses of the totality theorems hold in every state reached by
   replay; what remains a hypothesis is the room for the credits of the block at hand.

   The proofs are those of the non-negativity invariant (LedgerLemmas.v, BlockLemmas.v) with the
   range in place of the sign. *)
From Model Require Import Block Obs.
From Lemmas Require Import ArithLemmas DbLemmas LedgerLemmas BlockLemmas ChainLemmas TotalityLemmas.
From Gen Require Import Consts.
From Coq Require Import Lia ZifyBool.
Open Scope Z_scope.
Open Scope list_scope.

Definition range_map (m : gmap (addr * ticker) Z) : Prop := forall a t, 0 <= get_bal m a t <= max_int64.
Definition in_range (s : db) : Prop := range_map (bal s).

Lemma in_range_room s : in_range s <-> bal_room s 0.
Proof. unfold in_range, range_map, bal_room. split; intros H a t; specialize (H a t); lia. Qed.
Lemma in_range_nonneg s : in_range s -> nonneg s.
Proof. intros H a t. apply H. Qed.

Lemma add_to_balance_range s a t v s' :
  in_range s -> 0 <= v -> add_to_balance s a t v = Ok s' -> in_range s'.
Proof.
  intros Hn Hv H. unfold add_to_balance in H. destruct (negb _); [discriminate|].
  destruct (two63 <=? v); [discriminate|].
  destruct (Z.ltb_spec max_int64 (get_bal (bal s) a t + v)) as [K|K]; [discriminate|]. inversion H; subst.
  unfold in_range. cbn [bal set_bal]. intros a' t'. rewrite get_bal_insert. destruct (decide _); [|apply Hn].
  specialize (Hn a t). lia.
Qed.
Lemma sub_from_balance_range s a t v s' :
  in_range s -> 0 <= v -> sub_from_balance s a t v = SubOk s' -> in_range s'.
Proof.
  intros Hn Hv H. apply sub_from_balance_ok in H as (_ & Hr & _ & ->). unfold in_range. cbn [bal set_bal].
  intros a' t'. rewrite get_bal_insert. destruct (decide _); [|apply Hn]. specialize (Hn a t). lia.
Qed.

Section WithCfg.
Variable c : cfg.

Lemma credit_transfers_range h hs idx ty trs s s' :
  in_range s -> Forall (fun tr => 0 <= tr_amt tr) trs ->
  credit_transfers c h hs idx ty trs s = Ok s' -> in_range s'.
Proof.
  intros Hn Hf H. unfold credit_transfers in H.
  eapply (fold_res_inv_in in_range
            (fun s' tr => if tr_addr tr =? burn_addr c h then Ok s'
                          else let? s1 := add_to_balance s' (tr_addr tr) ty (tr_amt tr) in
                               Ok (insert_relation s1 (tr_addr tr) hs idx true false))); [|exact Hn|exact H].
  intros s0 tr s1 Hin Hn0 Hs. destruct (tr_addr tr =? burn_addr c h).
  - inversion Hs; subst; exact Hn0.
  - apply rbind_ok in Hs as (s2 & Ha & Hr). inversion Hr; subst.
    unfold in_range. rewrite bal_insert_relation. eapply add_to_balance_range; [exact Hn0| |exact Ha].
    rewrite Forall_forall in Hf. apply Hf; exact Hin.
Qed.

Lemma record_txs_range h hs rates avgs txs : forall idx s s',
  in_range s -> txs_ok txs -> record_txs c h hs rates avgs idx txs s = Ok s' -> in_range s'.
Proof.
  induction txs as [|t txs IH]; intros idx s s' Hn Hok H; cbn [record_txs] in H.
  - inversion H; subst; exact Hn.
  - inversion Hok as [|? ? [Ha Htr] Hok']; subst.
    destruct (sub_from_balance s (tx_addr t) (tx_type t) (tx_amt t)) as [s1| |code] eqn:Es; try discriminate.
    assert (Hn1 : in_range s1) by (eapply sub_from_balance_range; eauto).
    set (s3 := set_executed (insert_relation s1 (tx_addr t) hs idx false (is_conversion t)) hs h) in *.
    assert (Hn3 : in_range s3) by (unfold in_range, s3; rewrite bal_set_executed, bal_insert_relation; exact Hn1).
    destruct ((c_PegnetConversionLimitActivation c <=? h) && is_peg_request t).
    + destruct (conv_of c h rates avgs t); [|discriminate]. eapply IH; eauto.
    + destruct (is_conversion t).
      * destruct (conv_of c h rates avgs t) as [out|]; [|discriminate].
        apply rbind_ok in H as (s5 & Hadd & Hrest).
        eapply IH; [|exact Hok'|exact Hrest].
        eapply add_to_balance_range; [|apply wrap64_nonneg|exact Hadd].
        unfold in_range. rewrite bal_set_to_amount. exact Hn3.
      * apply rbind_ok in H as (s4 & Hc & Hrest).
        eapply IH; [|exact Hok'|exact Hrest]. eapply credit_transfers_range; eauto.
Qed.

Lemma apply_batch_range h s hs txs rates avgs s' :
  in_range s -> txs_ok txs -> apply_batch c h s hs txs rates avgs = BApplied s' -> in_range s'.
Proof.
  intros Hn Hok H. unfold apply_batch in H.
  destruct (check_txs c h s rates avgs txs) eqn:E1; [subst; exfalso; eapply check_txs_not_applied; eauto|].
  destruct (sim_txs c h _ rates avgs (bal s) txs) eqn:E2; [subst; exfalso; eapply sim_txs_not_applied; eauto|].
  unfold record_batch in H. destruct (record_txs c h hs rates avgs 0 txs s) eqn:E; try discriminate.
  inversion H; subst. eapply record_txs_range; eauto.
Qed.

Lemma pay_request_range h rates reqs s p s' :
  in_range s -> 0 <= snd p -> pay_request c h rates reqs s p = Ok s' -> in_range s'.
Proof.
  intros Hn Hp H. unfold pay_request in H. destruct (find _ reqs) as [r|]; [|inversion H; subst; exact Hn].
  apply rbind_ok in H as (s2 & H1 & H2).
  eapply add_to_balance_range; [|apply wrap64_nonneg|exact H2].
  eapply add_to_balance_range; [|exact Hp|exact H1].
  unfold in_range. rewrite bal_set_peg_request_amounts. exact Hn.
Qed.

Lemma record_peg_requests_range h s batches rates avgs bankamt bh s' :
  in_range s -> record_peg_requests c h s batches rates avgs bankamt bh = Ok s' -> in_range s'.
Proof.
  intros Hn H. unfold record_peg_requests, record_peg_requests_ord in H.
  set (reqs := flat_map _ batches) in *.
  destruct (has_dup_txid _); [discriminate|].
  set (rs := map (fun r => (pr_txid r, pr_amt r)) reqs) in *.
  apply rbind_ok in H as (s1 & H1 & H2).
  assert (Hn1 : in_range s1).
  { eapply (fold_res_inv_in in_range (fun s' p => pay_request c h rates reqs s' p)); [|exact Hn|exact H1].
    intros s0 p s2 Hin Hn0 Hp. eapply pay_request_range; [exact Hn0| |exact Hp].
    assert (Hrs : Forall (fun r : txid * Z => 0 <= snd r) rs).
    { unfold rs. apply Forall_forall. intros x Hx. apply in_map_iff in Hx as (y & <- & Hy). cbn.
      unfold reqs in Hy. apply in_flat_map in Hy as (b & _ & Hy).
      pose proof (reqs_of_batch_nonneg c h rates avgs (fst b) (snd b) 0) as F. rewrite Forall_forall in F. apply F; exact Hy. }
    pose proof (payouts_nonneg bankamt rs Hrs) as F. rewrite Forall_forall in F. apply F; exact Hin. }
  destruct (_ <=? bh).
  - unfold in_range. erewrite bal_update_bank; [exact Hn1|exact H2].
  - inversion H2; subst; exact Hn1.
Qed.

Lemma apply_held_range cur rates avgs s e hh s' isp :
  in_range s -> apply_held c cur rates avgs s e hh = Ok (s', isp) -> in_range s'.
Proof.
  intros Hn H. unfold apply_held in H.
  destruct (entry_valid_at c e hh) as [txs|] eqn:Ev; [|inversion H; subst; exact Hn].
  destruct (_ && has_peg_conversion txs); [inversion H; subst; exact Hn|].
  destruct (entry_valid_at c e cur); [|inversion H; subst; exact Hn].
  destruct (is_replay s (e_hash e)); [inversion H; subst; exact Hn|].
  destruct (apply_batch c cur s (e_hash e) txs rates avgs) as [s2|code| |code] eqn:Eb; try discriminate;
    inversion H; subst; try exact Hn.
  eapply apply_batch_range; [exact Hn|eapply entry_valid_at_ok; exact Ev|exact Eb].
Qed.

Lemma apply_held_height_range cm cur rates avgs hh s pegs s' pegs' :
  in_range s -> apply_held_height c cm cur rates avgs hh (Ok (s, pegs)) = Ok (s', pegs') -> in_range s'.
Proof.
  intros Hn H. unfold apply_held_height in H. cbn [rbind] in H.
  apply rbind_ok in H as ([s1 pegs1] & H1 & H2).
  assert (Hn1 : in_range s1).
  { pose (f := fun (st : db * list (hash * list tx)) (e : entry) =>
                 let '(s, pegs) := st in
                 let? r1 := apply_held c cur rates avgs s e hh in
                 let '(s', isp) := r1 in
                 Ok (s', if isp then pegs ++ [(e_hash e, default [] (e_batch e))] else pegs)).
    assert (Hstep : forall st e st', in_range (fst st) -> f st e = Ok st' -> in_range (fst st')).
    { intros [s0 p0] e [s2 p2] Hn0 Hs. cbn [fst] in *. unfold f in Hs.
      apply rbind_ok in Hs as ([s3 isp] & Ha & Hr). inversion Hr; subst.
      eapply apply_held_range; eauto. }
    exact (fold_res_inv (fun st => in_range (fst st)) f _ Hstep (s, pegs) (s1, pegs1) Hn H1). }
  destruct (_ && _).
  - apply rbind_ok in H2 as (s2 & Hr & Hk). inversion Hk; subst.
    eapply record_peg_requests_range; eauto.
  - inversion H2; subst; exact Hn1.
Qed.

Lemma apply_holding_range cm cur s rates avgs s' :
  in_range s -> apply_holding c cm cur s rates avgs = Ok s' -> in_range s'.
Proof.
  intros Hn H. unfold apply_holding in H.
  apply rbind_ok in H as ([s1 pegs] & H1 & H2).
  assert (Hn1 : in_range s1).
  { clear H2. cbv zeta in H1.
    match type of H1 with fold_left _ ?l _ = _ => remember l as hs eqn:Ehs; clear Ehs end.
    revert s Hn H1. generalize (@nil (hash * list tx)) as p0.
    induction hs as [|hh l IH]; intros p0 s Hn H1; cbn [fold_left] in H1.
    - inversion H1; subst; exact Hn.
    - destruct (apply_held_height c cm cur rates avgs hh (Ok (s, p0))) as [[s2 p2]|code|code] eqn:E.
      + eapply IH; [|exact H1]. eapply apply_held_height_range; eauto.
      + exfalso. clear -H1. induction l as [|y l IHl]; cbn in H1; [discriminate|auto].
      + exfalso. clear -H1. induction l as [|y l IHl]; cbn in H1; [discriminate|auto]. }
  destruct (_ && _).
  - destruct (bank s1 !! cur) as [[[am ?] ?]|]; eapply record_peg_requests_range; eauto.
  - inversion H2; subst; exact Hn1.
Qed.

Lemma apply_entry_range h s order e s' :
  in_range s -> apply_entry c h s order e = Ok s' -> in_range s'.
Proof.
  intros Hn H. unfold apply_entry in H.
  destruct (entry_valid_at c e h) as [txs|] eqn:Ev; [|inversion H; subst; exact Hn].
  destruct (is_replay s (e_hash e)); [inversion H; subst; exact Hn|].
  destruct (hist_has s (e_hash e)); [inversion H; subst; exact Hn|].
  apply rbind_ok in H as (s1 & H1 & H2).
  assert (Hn1 : in_range s1) by (unfold in_range; erewrite insert_history_bal; eauto).
  destruct (has_conversions txs).
  - unfold in_range. erewrite bal_insert_holding; eauto.
  - destruct (apply_batch c h s1 (e_hash e) txs ∅ ∅) as [s2|code| |code] eqn:Eb.
    + inversion H2; subst. eapply apply_batch_range; [exact Hn1|eapply entry_valid_at_ok; exact Ev|exact Eb].
    + destruct (code =? -1); inversion H2; subst. exact Hn1.
    + inversion H2; subst; exact Hn1.
    + discriminate.
Qed.

Lemma apply_tx_block_range h s es s' :
  in_range s -> apply_tx_block c h s es = Ok s' -> in_range s'.
Proof.
  unfold apply_tx_block. generalize 0 as i. revert s.
  induction es as [|e es IH]; intros s i Hn H; cbn [fold_left snd] in H.
  - inversion H; subst; exact Hn.
  - cbn [rbind] in H. destruct (apply_entry c h s i e) as [s1|code|code] eqn:E.
    + eapply IH; [|exact H]. eapply apply_entry_range; eauto.
    + exfalso. clear -H. revert H. generalize (i + 1). induction es as [|y l IHl]; intros j H; cbn in H; [discriminate|eauto].
    + exfalso. clear -H. revert H. generalize (i + 1). induction es as [|y l IHl]; intros j H; cbn in H; [discriminate|eauto].
Qed.

Lemma apply_factoid_block_range h s fs s' :
  in_range s -> apply_factoid_block h s fs = Ok s' -> in_range s'.
Proof.
  intros Hn H. unfold apply_factoid_block in H.
  refine (fold_res_inv in_range (fun s' f => match is_burn f with None => Ok s' | Some (a, v) => _ end) fs _ s s' Hn H).
  intros s0 f s2 Hn0 Hs. destruct (is_burn f) as [[a v]|] eqn:Eb; [|inversion Hs; subst; exact Hn0].
  apply rbind_ok in Hs as (s3 & H1 & Hs). apply rbind_ok in Hs as (s4 & H2 & H3).
  unfold in_range. erewrite bal_insert_htx; [|exact H3]. erewrite bal_insert_hbatch; [|exact H2].
  eapply add_to_balance_range; [exact Hn0|eapply is_burn_nonneg; exact Eb|exact H1].
Qed.

Lemma pay_winners_range s ts ws s' : in_range s -> pay_winners s ts ws = Ok s' -> in_range s'.
Proof.
  intros Hn H. unfold pay_winners in H.
  refine (fold_res_inv in_range (fun s' w => match w_addr w with None => Ok s' | Some a => _ end) ws _ s s' Hn H).
  intros s0 w s2 Hn0 Hs. destruct (w_addr w) as [a|]; [|inversion Hs; subst; exact Hn0].
  apply rbind_ok in Hs as (s3 & H1 & Hs). apply rbind_ok in Hs as (s4 & H2 & H3).
  unfold in_range. erewrite bal_insert_htx; [|exact H3]. erewrite bal_insert_hbatch; [|exact H2].
  eapply add_to_balance_range; [exact Hn0|apply wrap64_nonneg|exact H1].
Qed.

Lemma mint_fold_range (l : list (Z * Z)) s s' :
  (forall m, In m l -> 0 <= snd m) -> in_range s ->
  fold_left (fun r m => let? s' := r in add_to_balance s' GlobalMintAddress (fst m) (snd m)) l (Ok s) = Ok s' ->
  in_range s'.
Proof.
  intros Hl Hn H.
  refine (fold_res_inv_in in_range (fun s' m => add_to_balance s' GlobalMintAddress (fst m) (snd m)) l _ s s' Hn H).
  intros s0 m s2 Hin Hn0 Hs. eapply add_to_balance_range; [exact Hn0|apply Hl; exact Hin|exact Hs].
Qed.
Lemma mint_list_nonneg' : forall m, In m mint_list -> 0 <= snd m.
Proof. intros m Hin. pose proof mint_list_nonneg as F. rewrite forallb_forall in F. specialize (F m Hin). apply Z.leb_le in F. exact F. Qed.
Lemma mint_tokens_range s s' : in_range s -> mint_tokens s = Ok s' -> in_range s'.
Proof. unfold mint_tokens. generalize mint_list_nonneg'. generalize mint_list. intros l Hl Hn H. exact (mint_fold_range l s s' Hl Hn H). Qed.

Lemma sub_ignoring_txerr_range s a t v s' :
  in_range s -> 0 <= v -> sub_ignoring_txerr s a t v = Ok s' -> in_range s'.
Proof.
  intros Hn Hv H. unfold sub_ignoring_txerr in H.
  destruct (sub_from_balance s a t v) eqn:E; inversion H; subst; [|exact Hn].
  eapply sub_from_balance_range; eauto.
Qed.

Lemma nullify_fold_range (l : list (Z * Z)) cm s s' : nonneg cm -> in_range s ->
  fold_left (fun r m => let? s' := r in sub_ignoring_txerr s' GlobalMintAddress (fst m) (get_bal (bal cm) GlobalMintAddress (fst m))) l (Ok s) = Ok s' ->
  in_range s'.
Proof.
  intros Hc Hn H.
  refine (fold_res_inv in_range (fun s' m => sub_ignoring_txerr s' GlobalMintAddress (fst m) (get_bal (bal cm) GlobalMintAddress (fst m))) l _ s s' Hn H).
  intros s0 m s2 Hn0 Hs. eapply sub_ignoring_txerr_range; [exact Hn0|apply Hc|exact Hs].
Qed.
Lemma nullify_minted_range cm s s' : nonneg cm -> in_range s -> nullify_minted cm s = Ok s' -> in_range s'.
Proof. unfold nullify_minted. generalize mint_list. intros l Hc Hn H. exact (nullify_fold_range l cm s s' Hc Hn H). Qed.

Lemma nullify_burn_range cm h ts s : nonneg cm -> in_range s -> in_range (nullify_burn c cm h ts s).
Proof.
  intros Hc Hn. unfold nullify_burn.
  set (step := fun (acc : Z * Z * (bool * db)) (t : Z) => _).
  generalize (0, (if c_V202EnhanceActivation c <=? h then 50 else 0)) as ij.
  generalize true as live. revert s Hn. generalize all_tickers as l.
  induction l as [|t l IH]; intros s Hn live ij; cbn [fold_left]; [exact Hn|].
  destruct ij as [i j]. unfold step at 2. destruct live; cbn [negb]; [|apply IH; exact Hn].
  set (a := if c_V202EnhanceActivation c <=? h then GlobalBurnAddress else GlobalOldBurnAddress).
  assert (Hn1 : in_range (match sub_ignoring_txerr s a t (get_bal (bal cm) a t) with Ok s' => s' | _ => s end)).
  { destruct (sub_ignoring_txerr s a t (get_bal (bal cm) a t)) eqn:E; try exact Hn.
    eapply sub_ignoring_txerr_range; [exact Hn|apply Hc|exact E]. }
  destruct (c_V202EnhanceActivation c <=? h); [apply IH; exact Hn1|].
  destruct (insert_hbatch _ _) as [s2|?|?] eqn:E2; try (apply IH; exact Hn1).
  assert (Hn2 : in_range s2) by (unfold in_range; erewrite bal_insert_hbatch; eauto).
  destruct (0 <? _); [apply IH; exact Hn2|].
  destruct (insert_htx s2 _ _) as [s3|?|?] eqn:E3; try (apply IH; exact Hn2).
  apply IH. unfold in_range. erewrite bal_insert_htx; eauto.
Qed.

Lemma snapshot_payouts_range h ts rates s s' :
  in_range s -> snapshot_payouts c h ts rates s = Ok s' -> in_range s'.
Proof.
  intros Hn H. unfold snapshot_payouts in H. cbv zeta in H.
  destruct (existsb _ _); [discriminate|]. destruct (existsb _ _); [discriminate|].
  match type of H with match ?l with [] => _ | _ => _ end = _ => remember l as lst eqn:El end.
  assert (Hpos : forall x, In x lst -> 0 <= snd x).
  { intros x Hx. rewrite El in Hx. apply sort_stakes_in in Hx. apply filter_In in Hx as [_ Hx]. lia. }
  clear El. destruct lst as [|x0 lst0] eqn:E0; [inversion H; subst; exact Hn|]. rewrite <- E0 in *. clear E0.
  apply rbind_ok in H as (s2 & H1 & H). apply rbind_ok in H as (s3 & H2 & H3).
  assert (Hn2 : in_range s2) by (unfold in_range; rewrite (bal_insert_hbatch _ _ _ H1); exact Hn).
  assert (Hn3 : in_range s3).
  { refine (fold_res_inv in_range _ _ _ s2 s3 Hn2 H2).
    intros s0 p s4 Hn0 Hs. destruct (two63 <=? snd p); [discriminate|].
    unfold in_range. erewrite bal_insert_htx; [exact Hn0|exact Hs]. }
  refine (fold_res_inv_in in_range _ _ _ s3 s' Hn3 H3).
  intros s0 p s4 Hin Hn0 Hs. eapply add_to_balance_range; [exact Hn0| |exact Hs].
  match type of Hin with In p (payouts ?b ?rs) => assert (F : Forall (fun r : txid * Z => 0 <= snd r) (payouts b rs)) end.
  { apply payouts_nonneg. apply Forall_forall. intros r Hr. apply in_map_iff in Hr as (y & <- & Hy). cbn [snd].
    apply Hpos. eapply index_from_in. exact Hy. }
  rewrite Forall_forall in F. apply F; exact Hin.
Qed.

Lemma developers_payouts_range h ts s s' :
  in_range s -> fst (developers_payouts c h ts s) = Ok s' -> in_range s'.
Proof.
  unfold developers_payouts. cbv zeta.
  pose proof dev_rewards_nonneg as T. rewrite forallb_forall in T. revert T.
  generalize dev_rewards as l. intros l T Hn.
  set (step := fun (acc : Z * Z * (res db * db)) (d : Z * Z * Z * Z) => _).
  assert (G : forall l0 ij r reached, (forall d, In d l0 -> In d l) ->
             (forall s0, r = Ok s0 -> in_range s0) ->
             forall s1, fst (snd (fold_left step l0 (ij, (r, reached)))) = Ok s1 -> in_range s1).
  { induction l0 as [|d l0 IH]; intros [i j] r reached Hsub Hr s1 H; cbn [fold_left snd fst] in H.
    - apply Hr; exact H.
    - assert (Hd : In d l) by (apply Hsub; left; reflexivity).
      assert (Hsub' : forall d0, In d0 l0 -> In d0 l) by (intros; apply Hsub; right; assumption).
      unfold step at 2 in H. destruct r as [s0|e|e].
      + destruct d as [[[a bits] pre] post]. specialize (T _ Hd). cbv beta iota in T.
        apply andb_prop in T as [T1 T2]. apply Z.leb_le in T1, T2.
        assert (Hrew : 0 <= (if c_V202EnhanceActivation c <=? h then post else pre)) by (destruct (_ <=? h); assumption).
        destruct (add_to_balance s0 a PTickerPEG _) as [s2|e|e] eqn:Ea;
          try (eapply IH; [exact Hsub'| |exact H]; intros ? HH; discriminate).
        assert (Hn2 : in_range s2) by (eapply add_to_balance_range; [apply Hr; reflexivity|exact Hrew|exact Ea]).
        destruct (insert_hbatch s2 _) as [s3|e|e] eqn:Eb;
          try (eapply IH; [exact Hsub'| |exact H]; intros ? HH; discriminate).
        assert (Hn3 : in_range s3) by (unfold in_range; erewrite bal_insert_hbatch; [exact Hn2|exact Eb]).
        destruct (insert_htx s3 _ _) as [s4|e|e] eqn:Ec;
          try (eapply IH; [exact Hsub'| |exact H]; intros ? HH; discriminate).
        eapply IH; [exact Hsub'| |exact H]. intros s5 HH; inversion HH; subst.
        unfold in_range. erewrite bal_insert_htx; [exact Hn3|exact Ec].
      + eapply IH; [exact Hsub'| |exact H]. intros ? HH; discriminate.
      + eapply IH; [exact Hsub'| |exact H]. intros ? HH; discriminate. }
  intros H. eapply (G l (0, 1) (Ok s) s); [auto| |exact H]. intros s0 HH; inversion HH; subst; exact Hn.
Qed.

Ltac done_step H x Hx := apply obind_done in H as (x & Hx & H).

Lemma sync_block_range cm mem b s s' mem' :
  nonneg cm -> in_range s -> sync_block c cm mem b s = Done (s', mem') -> in_range s'.
Proof.
  intros Hc Hn H. unfold sync_block in H. cbv zeta in H.
  done_step H s1 H1. apply of_res_done in H1.
  assert (Hn1 : in_range s1).
  { destruct (_ =? c_V204EnhanceActivation c); [exact (mint_tokens_range _ _ Hn H1)|inversion H1; subst; exact Hn]. }
  clear H1 Hn s. done_step H s2 H2. apply of_res_done in H2.
  assert (Hn2 : in_range s2).
  { destruct (_ =? c_V204BurnMintedTokenActivation c); [exact (nullify_minted_range _ _ _ Hc Hn1 H2)|inversion H2; subst; exact Hn1]. }
  clear H2 Hn1 s1. done_step H graded Hg. done_step H gradedS HgS.
  done_step H st Hst. destruct st as [[s3 is_rates] ended].
  assert (Hn3 : in_range s3).
  { destruct (_ <? c_V20HeightActivation c).
    - destruct graded as [v|]; [|inversion Hst; subst; exact Hn2].
      done_step Hst s4 H4. apply of_res_done in H4.
      assert (Hn4 : in_range s4) by (unfold in_range; rewrite (bal_insert_grade _ _ _ _ H4); exact Hn2).
      destruct (v_winners v); [inversion Hst; subst; exact Hn4|].
      done_step Hst s5 H5. apply of_res_done in H5. inversion Hst; subst.
      unfold in_range. rewrite (bal_insert_rates _ _ _ _ _ _ H5); exact Hn4.
    - destruct (grade_spr_err c cm b); [discriminate|].
      done_step Hst s4 H4.
      assert (Hn4 : in_range s4).
      { destruct graded as [v|]; [apply of_res_done in H4; unfold in_range; rewrite (bal_insert_grade _ _ _ _ H4); exact Hn2|inversion H4; subst; exact Hn2]. }
      destruct (first_assets graded) as [|o0 o]; destruct (first_assets gradedS) as [|p0 p];
        try (inversion Hst; subst; exact Hn4);
        (destruct (select_rates c _ _ _); [|inversion Hst; subst; exact Hn4];
         done_step Hst s5 H5; apply of_res_done in H5; inversion Hst; subst;
         unfold in_range; rewrite (bal_insert_rates _ _ _ _ _ _ H5); exact Hn4). }
  clear Hst Hn2 s2. destruct ended; [inversion H; subst; exact Hn3|].
  done_step H st2 Hst2. destruct st2 as [s4 mem4].
  assert (Hn4 : in_range s4).
  { destruct (c_TransactionConversionActivation c <=? _); [|inversion Hst2; subst; exact Hn3].
    done_step Hst2 st Hs. destruct st as [s5 rates1].
    assert (Hn5 : in_range s5).
    { destruct ((c_V20HeightActivation c <=? _) && _); [|inversion Hs; subst; exact Hn3].
      done_step Hs s6 H6. apply of_res_done in H6. inversion Hs; subst. exact (snapshot_payouts_range _ _ _ _ _ Hn3 H6). }
    done_step Hst2 st Hs2. destruct st as [s6 mem6].
    assert (Hn6 : in_range s6).
    { destruct is_rates; [|inversion Hs2; subst; exact Hn5].
      done_step Hs2 s7 H7. apply of_res_done in H7.
      assert (Hn7 : in_range s7).
      { destruct ((c_V4OPRUpdate c <=? _) && _); [unfold in_range; rewrite (bal_insert_bank _ _ _ _ H7); exact Hn5|inversion H7; subst; exact Hn5]. }
      destruct (get_averages cm _ mem _) as [avgs mem'']. done_step Hs2 s8 H8. apply of_res_done in H8.
      inversion Hs2; subst. exact (apply_holding_range _ _ _ _ _ _ Hn7 H8). }
    done_step Hst2 s7 H7. inversion Hst2; subst.
    destruct (b_tx b); [apply of_res_done in H7; exact (apply_tx_block_range _ _ _ _ Hn6 H7)|inversion H7; subst; exact Hn6]. }
  clear Hst2 Hn3 s3. done_step H s5 H5.
  assert (Hn5 : in_range s5).
  { destruct (_ <? c_V20HeightActivation c); [apply of_res_done in H5; exact (apply_factoid_block_range _ _ _ _ Hn4 H5)|inversion H5; subst; exact Hn4]. }
  done_step H s6 H6.
  assert (Hn6 : in_range s6).
  { destruct graded; [apply of_res_done in H6; exact (pay_winners_range _ _ _ _ Hn5 H6)|inversion H6; subst; exact Hn5]. }
  done_step H s7 H7.
  assert (Hn7 : in_range s7).
  { destruct (c_V20HeightActivation c <=? _); [|inversion H7; subst; exact Hn6].
    destruct gradedS; [apply of_res_done in H7; exact (pay_winners_range _ _ _ _ Hn6 H7)|inversion H7; subst; exact Hn6]. }
  done_step H s8 H8. inversion H; subst.
  destruct ((c_V20DevRewardsHeightActivation c <=? _) && _); [apply of_res_done in H8; exact (developers_payouts_range _ _ _ _ Hn7 H8)|inversion H8; subst; exact Hn7].
Qed.


(* every applied block leaves every cell in [0, max_int64] *)
Theorem step_block_range cm mem b s' mem' :
  in_range cm -> step_block c cm mem b = Done (s', mem') -> in_range s'.
Proof.
  intros Hr0 H. pose proof (in_range_nonneg cm Hr0) as Hc. unfold step_block in H. cbv zeta in H.
  done_step H r Hr. destruct r as [s1 mem1]. done_step H s2 H2. apply of_res_done in H2. inversion H; subst.
  unfold in_range. erewrite bal_insert_synced; [|exact H2].
  eapply sync_block_range; [exact Hc| |exact Hr].
  destruct (_ =? c_V202EnhanceActivation c); destruct (_ =? c_V20DevRewardsHeightActivation c).
  - apply nullify_burn_range; [exact Hc|]. apply nullify_burn_range; assumption.
  - apply nullify_burn_range; assumption.
  - apply nullify_burn_range; assumption.
  - exact Hr0.
Qed.

Lemma in_range_genesis : in_range genesis.
Proof. intros a t. unfold genesis, empty_db, get_bal; cbn. rewrite lookup_empty. cbn. unfold max_int64. lia. Qed.

Theorem replay_range bs s m : replay c genesis empty_cache bs = Done (s, m) -> bal_room s 0.
Proof.
  intros H. apply in_range_room. revert H.
  apply (replay_inv c in_range); [intros; eapply step_block_range; eauto|apply in_range_genesis].
Qed.
End WithCfg.

Print Assumptions step_block_range.
