(* Lemmas/HistoryLemmas2.v — towards the chain-level form of C17 / C04 (T3): the accounting predicate
   "every balance cell outside the special addresses is the sum of what the executed history rows stand
   for", and its preservation by each writer of the ledger.  These are helper lemmas: the chain-level
   theorem over replay is NOT stated here (see README: it needs the at-most-once argument for held
   batches and a collision condition on mock / entry hashes). *)
From Model Require Import Block Examples.
From Lemmas Require Import ArithLemmas DbLemmas LedgerLemmas BlockLemmas RewardLemmas StatusLemmas HistoryLemmas.
From Gen Require Import Consts.
From Coq Require Import Lia ZifyBool.
Open Scope Z_scope.
Open Scope list_scope.

(* the status of an entry hash: the executed column of the first batch row with that hash (what the
   oracle Corr.Chain.hist_exec reads), 0 when there is none *)
Definition exec_of (l : list hbatch) (hs : hash) : Z :=
  match find (fun r => hb_hash r =? hs) l with Some r => hb_exec r | None => 0 end.
Definition has_batch (l : list hbatch) (hs : hash) : bool := existsb (fun r => hb_hash r =? hs) l.

Lemma hist_has_has_batch s hs : hist_has s hs = has_batch (hist s) hs.
Proof. reflexivity. Qed.

Lemma exec_of_none l hs : has_batch l hs = false -> exec_of l hs = 0.
Proof.
  unfold exec_of, has_batch. induction l as [|r l IH]; [reflexivity|]. cbn [existsb find]. intros H.
  apply orb_false_iff in H as [H1 H2]. rewrite H1. apply IH; exact H2.
Qed.
Lemma exec_of_app_old l B hs : has_batch l hs = true -> exec_of (l ++ B) hs = exec_of l hs.
Proof.
  unfold exec_of, has_batch. induction l as [|r l IH]; [discriminate|]. cbn [existsb find app].
  destruct (hb_hash r =? hs); [reflexivity|]. cbn [orb]. exact IH.
Qed.
Lemma exec_of_app_new l B hs : has_batch l hs = false -> exec_of (l ++ B) hs = exec_of B hs.
Proof.
  unfold exec_of, has_batch. induction l as [|r l IH]; [reflexivity|]. cbn [existsb find app]. intros H.
  apply orb_false_iff in H as [H1 H2]. rewrite H1. apply IH; exact H2.
Qed.
Lemma exec_of_app_other l B hs : has_batch B hs = false -> exec_of (l ++ B) hs = exec_of l hs.
Proof.
  intros H. destruct (has_batch l hs) eqn:E; [apply exec_of_app_old; exact E|].
  rewrite (exec_of_app_new _ _ _ E), (exec_of_none _ _ H), (exec_of_none _ _ E). reflexivity.
Qed.
Lemma has_batch_app l B hs : has_batch (l ++ B) hs = has_batch l hs || has_batch B hs.
Proof. unfold has_batch. apply existsb_app. Qed.
Lemma has_batch_mark hs code l hs' : has_batch (mark_exec hs code l) hs' = has_batch l hs'.
Proof.
  unfold has_batch, mark_exec. induction l as [|r l IH]; [reflexivity|]. cbn [map existsb]. rewrite IH.
  destruct (hb_hash r =? hs); reflexivity.
Qed.
Lemma exec_of_mark_same hs code l : has_batch l hs = true -> exec_of (mark_exec hs code l) hs = code.
Proof.
  unfold exec_of, has_batch, mark_exec. induction l as [|r l IH]; [discriminate|]. cbn [map existsb find].
  destruct (hb_hash r =? hs) eqn:E; cbn [hb_hash]; rewrite E; [reflexivity|]. cbn [orb]. exact IH.
Qed.
Lemma exec_of_mark_other hs code l hs' : hs' <> hs -> exec_of (mark_exec hs code l) hs' = exec_of l hs'.
Proof.
  intros N. unfold exec_of, mark_exec. induction l as [|r l IH]; [reflexivity|]. cbn [map find].
  destruct (hb_hash r =? hs) eqn:E; cbn [hb_hash].
  - apply Z.eqb_eq in E. destruct (Z.eqb_spec (hb_hash r) hs'); [congruence|]. exact IH.
  - destruct (hb_hash r =? hs'); [reflexivity|exact IH].
Qed.
Lemma exec_of_pos_has_batch l hs : 0 < exec_of l hs -> has_batch l hs = true.
Proof. intros H. destruct (has_batch l hs) eqn:E; [reflexivity|]. rewrite (exec_of_none _ _ E) in H. lia. Qed.

Definition special_addr (a : addr) : bool :=
  existsb (Z.eqb a) [GlobalBurnAddress; GlobalOldBurnAddress; GlobalMintAddress].

Section WithCfg.
Variable c : cfg.

(* what a row contributes: its effect when its hash counts as executed, with the burn address in force
   at the height it was executed at *)
Definition counted (l : list hbatch) (a : addr) (t : ticker) (r : htx) : Z :=
  if 0 <? exec_of l (ht_hash r)
  then effect_on a t (row_effect (burn_addr c (exec_of l (ht_hash r))) r) else 0.
Definition sum_counted (l : list hbatch) (a : addr) (t : ticker) (rows : list htx) : Z :=
  fold_right (fun r acc => counted l a t r + acc) 0 rows.
Definition hist_sum (s : db) (a : addr) (t : ticker) : Z := sum_counted (hist s) a t (htxs s).

(* THE accounting predicate: every cell outside the special addresses equals the replayed history *)
Definition accounts (s : db) : Prop :=
  forall a t, special_addr a = false -> get_bal (bal s) a t = hist_sum s a t.
(* every transaction row belongs to a batch row *)
Definition rows_have_batch (s : db) : Prop := Forall (fun r => has_batch (hist s) (ht_hash r) = true) (htxs s).
Definition hist_ok (s : db) : Prop := accounts s /\ rows_have_batch s.

Lemma sum_counted_nil l a t : sum_counted l a t [] = 0.
Proof. reflexivity. Qed.
Lemma sum_counted_cons l a t r rows : sum_counted l a t (r :: rows) = counted l a t r + sum_counted l a t rows.
Proof. reflexivity. Qed.
Lemma sum_counted_app l a t r1 r2 : sum_counted l a t (r1 ++ r2) = sum_counted l a t r1 + sum_counted l a t r2.
Proof. induction r1 as [|r r1 IH]; [reflexivity|]. rewrite <- app_comm_cons, !sum_counted_cons, IH. lia. Qed.
Lemma sum_counted_split l a t hs rows :
  sum_counted l a t rows = sum_counted l a t (rows_of hs rows) + sum_counted l a t (rows_not hs rows).
Proof.
  induction rows as [|r rows IH]; [reflexivity|]. unfold rows_of, rows_not in *. cbn [filter].
  destruct (ht_hash r =? hs); cbn [negb]; rewrite !sum_counted_cons, IH; lia.
Qed.
Lemma sum_counted_ext l l' a t rows :
  Forall (fun r => exec_of l' (ht_hash r) = exec_of l (ht_hash r)) rows -> sum_counted l' a t rows = sum_counted l a t rows.
Proof.
  induction 1 as [|r rows Hr _ IH]; [reflexivity|]. rewrite !sum_counted_cons, IH. unfold counted. rewrite Hr. reflexivity.
Qed.
(* the rows of one hash: all counted with the same status *)
Lemma sum_counted_uniform l a t hs rows :
  Forall (fun r => ht_hash r = hs) rows ->
  sum_counted l a t rows = if 0 <? exec_of l hs then rows_effect (burn_addr c (exec_of l hs)) a t rows else 0.
Proof.
  induction 1 as [|r rows Hr _ IH]; [destruct (0 <? _); reflexivity|].
  rewrite sum_counted_cons, IH. unfold counted. rewrite Hr. destruct (0 <? exec_of l hs); [rewrite rows_effect_cons|]; lia.
Qed.
(* coinbase and burn rows do not depend on the burn address *)
Lemma row_effect_coinbase_any burn burn' r : ht_action r = 3 \/ ht_action r = 4 -> row_effect burn r = row_effect burn' r.
Proof. intros [H|H]; unfold row_effect; rewrite H; reflexivity. Qed.
Lemma sum_counted_coinbase l a t rows :
  Forall (fun r => (ht_action r = 3 \/ ht_action r = 4) /\ 0 < exec_of l (ht_hash r)) rows ->
  sum_counted l a t rows = rows_effect 0 a t rows.
Proof.
  induction 1 as [|r rows [Ha Hr] _ IH]; [reflexivity|].
  rewrite sum_counted_cons, rows_effect_cons, IH. unfold counted.
  destruct (Z.ltb_spec 0 (exec_of l (ht_hash r))); [|lia]. rewrite (row_effect_coinbase_any _ 0 r Ha). reflexivity.
Qed.

Lemma rows_of_hash hs l : Forall (fun r => ht_hash r = hs) (rows_of hs l).
Proof. unfold rows_of. apply Forall_forall. intros r Hr. apply filter_In in Hr as [_ Hr]. apply Z.eqb_eq. exact Hr. Qed.
Lemma rows_not_hash hs l : Forall (fun r => ht_hash r <> hs) (rows_not hs l).
Proof. unfold rows_not. apply Forall_forall. intros r Hr. apply filter_In in Hr as [_ Hr]. apply negb_true_iff, Z.eqb_neq in Hr. exact Hr. Qed.
Lemma Forall_rows_split (P : htx -> Prop) hs l : Forall P (rows_of hs l) -> Forall P (rows_not hs l) -> Forall P l.
Proof.
  intros H1 H2. rewrite Forall_forall in *. intros r Hr. destruct (ht_hash r =? hs) eqn:E.
  - apply H1. apply filter_In. auto.
  - apply H2. apply filter_In. rewrite E. auto.
Qed.
Lemma Forall_rows_of (P : htx -> Prop) hs l : Forall P l -> Forall P (rows_of hs l).
Proof. intros H. rewrite Forall_forall in *. intros r Hr. apply filter_In in Hr as [Hr _]. auto. Qed.
Lemma Forall_rows_not (P : htx -> Prop) hs l : Forall P l -> Forall P (rows_not hs l).
Proof. intros H. rewrite Forall_forall in *. intros r Hr. apply filter_In in Hr as [Hr _]. auto. Qed.

Lemma rows_have_batch_none s hs : rows_have_batch s -> has_batch (hist s) hs = false -> rows_of hs (htxs s) = [].
Proof.
  unfold rows_have_batch, rows_of. intros H Hn. induction H as [|r l Hr _ IH]; [reflexivity|]. cbn [filter].
  destruct (Z.eqb_spec (ht_hash r) hs) as [E|E]; [rewrite E in Hr; congruence|exact IH].
Qed.

(* ---- the empty database ------------------------------------------------------------------------------ *)
Lemma hist_ok_genesis : hist_ok genesis.
Proof.
  split; [|constructor]. intros a t _. unfold hist_sum, genesis, empty_db, get_bal. cbn. rewrite lookup_empty. reflexivity.
Qed.

(* ---- generic steps ------------------------------------------------------------------------------------- *)
(* (1) only the rows and the status of ONE hash move, every other hash keeps its status *)
Lemma hist_ok_one_hash s s' hs :
  rows_not hs (htxs s') = rows_not hs (htxs s) ->
  (forall hs', hs' <> hs -> exec_of (hist s') hs' = exec_of (hist s) hs' /\
                            (has_batch (hist s) hs' = true -> has_batch (hist s') hs' = true)) ->
  (rows_of hs (htxs s') <> [] -> has_batch (hist s') hs = true) ->
  (forall a t, special_addr a = false ->
     get_bal (bal s') a t - sum_counted (hist s') a t (rows_of hs (htxs s')) =
     get_bal (bal s) a t - sum_counted (hist s) a t (rows_of hs (htxs s))) ->
  hist_ok s -> hist_ok s'.
Proof.
  intros Hnot Hother Hhas Hbal [Hacc Hrb]. split.
  - intros a t Hsp. specialize (Hbal a t Hsp). specialize (Hacc a t Hsp). unfold hist_sum in *.
    rewrite (sum_counted_split _ a t hs (htxs s')). rewrite (sum_counted_split _ a t hs (htxs s)) in Hacc.
    rewrite Hnot.
    rewrite (sum_counted_ext (hist s) (hist s') a t (rows_not hs (htxs s))); [lia|].
    eapply Forall_impl; [|apply rows_not_hash]. cbn. intros r Hr. apply Hother; exact Hr.
  - unfold rows_have_batch in *. apply (Forall_rows_split _ hs).
    + destruct (rows_of hs (htxs s')) as [|r0 l0] eqn:E; [constructor|].
      assert (Hb : has_batch (hist s') hs = true) by (apply Hhas; discriminate).
      rewrite <- E. eapply Forall_impl; [|apply rows_of_hash]. cbn. intros r ->. exact Hb.
    + rewrite Hnot. pose proof (Forall_rows_not _ hs _ Hrb) as F. pose proof (rows_not_hash hs (htxs s)) as G.
      rewrite Forall_forall in *. intros r Hr. apply Hother; [apply G; exact Hr|apply F; exact Hr].
Qed.

(* (2) batch rows and transaction rows are appended; the cells move by what the new rows count for *)
Lemma hist_ok_append s s' R B :
  hist s' = hist s ++ B -> htxs s' = htxs s ++ R ->
  Forall (fun r => has_batch (hist s') (ht_hash r) = true) R ->
  (forall a t, special_addr a = false -> get_bal (bal s') a t = get_bal (bal s) a t + sum_counted (hist s') a t R) ->
  hist_ok s -> hist_ok s'.
Proof.
  intros Hh Hx HR Hbal [Hacc Hrb]. unfold rows_have_batch in Hrb.
  assert (Hold : Forall (fun r => exec_of (hist s') (ht_hash r) = exec_of (hist s) (ht_hash r)) (htxs s)).
  { eapply Forall_impl; [|exact Hrb]. cbn. intros r Hr. rewrite Hh. apply exec_of_app_old; exact Hr. }
  split.
  - intros a t Hsp. unfold hist_sum. rewrite Hx, sum_counted_app, (sum_counted_ext _ _ a t _ Hold), (Hbal a t Hsp).
    rewrite (Hacc a t Hsp). reflexivity.
  - unfold rows_have_batch. rewrite Hx. apply Forall_app. split; [|exact HR].
    eapply Forall_impl; [|exact Hrb]. cbn. intros r Hr. rewrite Hh, has_batch_app, Hr. reflexivity.
Qed.

(* (0) nothing the predicate looks at moved, or only special addresses did *)
Lemma hist_ok_bal_special s s' :
  hist s' = hist s -> htxs s' = htxs s ->
  (forall a t, special_addr a = false -> get_bal (bal s') a t = get_bal (bal s) a t) ->
  hist_ok s -> hist_ok s'.
Proof.
  intros Hh Hx Hb [Hacc Hrb]. split.
  - intros a t Hsp. unfold hist_sum. rewrite Hh, Hx, (Hb a t Hsp). apply Hacc; exact Hsp.
  - unfold rows_have_batch. rewrite Hh, Hx. exact Hrb.
Qed.

(* (3) a NEW hash: one batch row is appended for it, its transaction rows appear; when the batch row says
   executed the cells move by what those rows stand for, otherwise no cell moves *)
Lemma hist_ok_entry_step s s' X b :
  has_batch (hist s) X = false -> hb_hash b = X ->
  hist s' = hist s ++ [b] ->
  rows_not X (htxs s') = rows_not X (htxs s) ->
  (forall a t, get_bal (bal s') a t =
     get_bal (bal s) a t + (if 0 <? hb_exec b then rows_effect (burn_addr c (hb_exec b)) a t (rows_of X (htxs s')) else 0)) ->
  hist_ok s -> hist_ok s'.
Proof.
  intros Hfresh Hb Hh Hnot Hbal Hok.
  assert (HbX : has_batch [b] X = true) by (unfold has_batch; cbn [existsb]; rewrite Hb, Z.eqb_refl; reflexivity).
  assert (Hex : exec_of (hist s') X = hb_exec b).
  { rewrite Hh, (exec_of_app_new _ _ _ Hfresh). unfold exec_of. cbn [find]. rewrite Hb, Z.eqb_refl. reflexivity. }
  refine (hist_ok_one_hash s s' X Hnot _ _ _ Hok).
  - intros hs' N. rewrite Hh. split.
    + apply exec_of_app_other. unfold has_batch. cbn [existsb]. rewrite Hb. destruct (Z.eqb_spec X hs'); [congruence|reflexivity].
    + intros H. rewrite has_batch_app, H. reflexivity.
  - intros _. rewrite Hh, has_batch_app, HbX. apply orb_true_r.
  - intros a t _. destruct Hok as [_ Hrb]. rewrite (rows_have_batch_none s X Hrb Hfresh), sum_counted_nil.
    rewrite (sum_counted_uniform _ a t X _ (rows_of_hash X _)), Hex, (Hbal a t). lia.
Qed.

(* (4) the status of an EXISTING hash that did not count as executed is overwritten *)
Lemma hist_ok_mark_step s s' X code :
  hist s' = mark_exec X code (hist s) ->
  rows_not X (htxs s') = rows_not X (htxs s) ->
  exec_of (hist s) X <= 0 ->
  (0 < code \/ rows_of X (htxs s') <> [] -> has_batch (hist s) X = true) ->
  (forall a t, get_bal (bal s') a t =
     get_bal (bal s) a t + (if 0 <? code then rows_effect (burn_addr c code) a t (rows_of X (htxs s')) else 0)) ->
  hist_ok s -> hist_ok s'.
Proof.
  intros Hh Hnot Hle Hhas Hbal Hok.
  refine (hist_ok_one_hash s s' X Hnot _ _ _ Hok).
  - intros hs' N. rewrite Hh. split; [apply exec_of_mark_other; exact N|]. rewrite has_batch_mark. auto.
  - intros H. rewrite Hh, has_batch_mark. apply Hhas. right; exact H.
  - intros a t _. rewrite !(sum_counted_uniform _ a t X _ (rows_of_hash X _)), (Hbal a t).
    destruct (Z.ltb_spec 0 (exec_of (hist s) X)); [lia|].
    destruct (Z.ltb_spec 0 code) as [Hc|Hc].
    + rewrite Hh, (exec_of_mark_same _ _ _ (Hhas (or_introl Hc))). destruct (Z.ltb_spec 0 code); lia.
    + destruct (has_batch (hist s) X) eqn:E.
      * rewrite Hh, (exec_of_mark_same _ _ _ E). destruct (Z.ltb_spec 0 code); lia.
      * rewrite Hh, (mark_exec_fresh _ _ _ E), (exec_of_none _ _ E). cbn. lia.
Qed.

(* ---- the arrival path -------------------------------------------------------------------------------------- *)
Lemma insert_holding_ok s e h s' :
  insert_holding s e h = Ok s' -> hist s' = hist s /\ htxs s' = htxs s /\ bal s' = bal s.
Proof. unfold insert_holding. destruct (holding_has _ _); [discriminate|]. intros H; inversion H; subst; auto. Qed.

Theorem hist_ok_apply_entry h s order e s' :
  0 < h -> apply_entry c h s order e = Ok s' -> hist_ok s -> hist_ok s'.
Proof.
  intros Hh H Hok. pose proof H as H0. unfold apply_entry in H.
  destruct (entry_valid_at c e h) as [txs|] eqn:Ev; [|inversion H; subst; exact Hok].
  destruct (is_replay s (e_hash e)) eqn:Er; [inversion H; subst; exact Hok|].
  destruct (hist_has s (e_hash e)) eqn:Eh; [inversion H; subst; exact Hok|].
  assert (Hfresh : has_batch (hist s) (e_hash e) = false) by exact Eh.
  assert (Hrows : rows_of (e_hash e) (htxs s) = []) by (apply rows_have_batch_none; [apply Hok|exact Hfresh]).
  destruct (has_conversions txs) eqn:Ec.
  - (* held: pending rows, no cell moves *)
    apply rbind_ok in H as (s1 & H1 & H2). apply insert_history_ok in H1 as (A1 & A2 & A3 & _).
    apply insert_holding_ok in H2 as (B1 & B2 & B3).
    destruct (rows_of_all (e_hash e) _ (pend_rows_hash (e_hash e) txs 0)) as [P1 P2].
    refine (hist_ok_entry_step s s' (e_hash e) (batch_row e h order 0) Hfresh eq_refl _ _ _ Hok).
    + rewrite B1, A1. reflexivity.
    + rewrite B2, A2, rows_not_app, P2, app_nil_r. reflexivity.
    + intros a t. cbn [hb_exec batch_row]. rewrite B3, A3. cbn. lia.
  - destruct (apply_entry_history c h s order e txs s' H0 Ev Er Eh Ec Hrows) as (N & [(Hne & R1 & R3 & R4)|(R1 & R2 & [R3|R3])]).
    + refine (hist_ok_entry_step s s' (e_hash e) (batch_row e h order h) Hfresh eq_refl R3 N _ Hok).
      intros a t. cbn [hb_exec batch_row]. destruct (Z.ltb_spec 0 h); [|lia]. apply R4.
    + refine (hist_ok_entry_step s s' (e_hash e) (batch_row e h order 0) Hfresh eq_refl R3 N _ Hok).
      intros a t. cbn [hb_exec batch_row]. rewrite R2. cbn. lia.
    + refine (hist_ok_entry_step s s' (e_hash e) (batch_row e h order (-1)) Hfresh eq_refl R3 N _ Hok).
      intros a t. cbn [hb_exec batch_row]. rewrite R2. cbn. lia.
Qed.

Theorem hist_ok_apply_tx_block h s es s' :
  0 < h -> apply_tx_block c h s es = Ok s' -> hist_ok s -> hist_ok s'.
Proof.
  intros Hh. unfold apply_tx_block. generalize 0 as i. revert s.
  induction es as [|e es IH]; intros s i H Hok; cbn [fold_left snd] in H.
  - inversion H; subst; exact Hok.
  - cbn [rbind] in H. destruct (apply_entry c h s i e) as [s1|code|code] eqn:E.
    + eapply IH; [exact H|]. eapply hist_ok_apply_entry; eauto.
    + exfalso. clear -H. revert H. generalize (i + 1). induction es as [|y l IHl]; intros j H; cbn in H; [discriminate|eauto].
    + exfalso. clear -H. revert H. generalize (i + 1). induction es as [|y l IHl]; intros j H; cbn in H; [discriminate|eauto].
Qed.

(* ---- the holding path ---------------------------------------------------------------------------------------- *)
(* [exec_of (hist s) (e_hash e) <= 0]: the held batch did not count as executed before this block looks at it
   (at chain level this is the at-most-once property of the holding window, C06) *)
Theorem hist_ok_apply_held cur rates avgs s e hh s' isp txs :
  0 < cur ->
  apply_held c cur rates avgs s e hh = Ok (s', isp) ->
  entry_valid_at c e hh = Some txs ->
  no_deferred c cur txs = true ->
  convs_fit c cur rates avgs txs = true ->
  rows_of (e_hash e) (htxs s) = map fst (history_rows_of (e_hash e) txs) ->
  exec_of (hist s) (e_hash e) <= 0 ->
  hist_ok s -> hist_ok s'.
Proof.
  intros Hcur H Hv Hnd Hfit Hrows Hle Hok.
  destruct (apply_held_history c cur rates avgs s e hh s' isp txs H Hv Hnd Hfit Hrows)
    as (_ & [(_ & R1 & R2 & R3 & R4)|(R1 & R2 & [R3|(code & Hcode & R3)])]).
  - destruct txs as [|t0 txs0].
    + (* an empty batch: nothing is marked, no row, no cell *)
      apply (hist_ok_bal_special s s'); [exact R3| |intros a t _; rewrite R4, R1; cbn; lia|exact Hok].
      (* the table itself: rows_of and rows_not agree, but the order could differ in principle: use record_txs on [] *)
      clear -H Hv. unfold apply_held in H. rewrite Hv in H.
      destruct (_ && has_peg_conversion []); [inversion H; reflexivity|].
      destruct (entry_valid_at c e cur); [|inversion H; reflexivity].
      destruct (is_replay s (e_hash e)); [inversion H; reflexivity|].
      cbn in H. inversion H; reflexivity.
    + assert (Hb : has_batch (hist s) (e_hash e) = true).
      { destruct Hok as [_ Hrb]. unfold rows_have_batch in Hrb. rewrite history_rows_of_pend in Hrows. cbn [pend_rows] in Hrows.
        assert (Hin : In (pend_row (e_hash e) 0 t0) (rows_of (e_hash e) (htxs s))) by (rewrite Hrows; left; reflexivity).
        apply filter_In in Hin as [Hin Hhash]. rewrite Forall_forall in Hrb. specialize (Hrb _ Hin).
        apply Z.eqb_eq in Hhash. rewrite Hhash in Hrb. exact Hrb. }
      refine (hist_ok_mark_step s s' (e_hash e) cur R3 R2 Hle (fun _ => Hb) _ Hok).
      intros a t. destruct (Z.ltb_spec 0 cur); [|lia]. apply R4.
  - apply (hist_ok_bal_special s s'); [exact R3|exact R1|intros a t _; rewrite R2; reflexivity|exact Hok].
  - assert (Hrb := proj2 Hok).
    refine (hist_ok_mark_step s s' (e_hash e) code R3 _ Hle _ _ Hok).
    + rewrite R1. reflexivity.
    + intros [Hc|Hne]; [lia|]. rewrite R1 in Hne.
      destruct (has_batch (hist s) (e_hash e)) eqn:E; [reflexivity|]. exfalso. apply Hne. apply rows_have_batch_none; assumption.
    + intros a t. destruct (Z.ltb_spec 0 code); [lia|]. rewrite R2. lia.
Qed.

(* ---- the coinbase-style writers --------------------------------------------------------------------------------- *)
(* [Forall (fun r => 0 < exec_of (hist s') (ht_hash r)) rows]: the hash of every inserted row counts as executed
   in the resulting table — true when the hash is new and the height positive, or when the hash is already
   recorded as executed; false when it collides with a pending or rejected entry *)
Lemma hist_ok_coinbase_writer s s' R B :
  hist s' = hist s ++ B -> htxs s' = htxs s ++ R ->
  Forall (fun r => ht_action r = 3 \/ ht_action r = 4) R ->
  Forall (fun r => 0 < exec_of (hist s') (ht_hash r)) R ->
  (forall a t, get_bal (bal s') a t = get_bal (bal s) a t + rows_effect 0 a t R) ->
  hist_ok s -> hist_ok s'.
Proof.
  intros Hh Hx Hact Hex Hbal Hok.
  refine (hist_ok_append s s' R B Hh Hx _ _ Hok).
  - eapply Forall_impl; [|exact Hex]. cbn. intros r Hr. apply exec_of_pos_has_batch; exact Hr.
  - intros a t _. rewrite sum_counted_coinbase; [apply Hbal|].
    rewrite Forall_forall in *. intros r Hr. split; [apply Hact|apply Hex]; exact Hr.
Qed.

Lemma winner_rows_action ws : Forall (fun r => ht_action r = 3 \/ ht_action r = 4) (winner_rows ws).
Proof.
  unfold winner_rows. apply Forall_forall. intros r Hr. apply in_flat_map in Hr as (w & _ & Hr).
  destruct (w_addr w); [|contradiction]. destruct Hr as [<-|[]]. left; reflexivity.
Qed.
Theorem hist_ok_pay_winners s ts ws s' :
  pay_winners s ts ws = Ok s' -> payouts_fit ws = true ->
  Forall (fun r => 0 < exec_of (hist s') (ht_hash r)) (winner_rows ws) ->
  hist_ok s -> hist_ok s'.
Proof.
  intros H Hfit Hex Hok. destruct (pay_winners_history s ts ws s' H Hfit) as (R1 & R2 & R3).
  exact (hist_ok_coinbase_writer s s' _ _ R2 R1 (winner_rows_action ws) Hex (R3 0) Hok).
Qed.

Lemma burn_rows_action fs : Forall (fun r => ht_action r = 3 \/ ht_action r = 4) (burn_rows fs).
Proof.
  unfold burn_rows. apply Forall_forall. intros r Hr. apply in_flat_map in Hr as (f & _ & Hr).
  destruct (is_burn f) as [[a v]|]; [|contradiction]. destruct Hr as [<-|[]]. right; reflexivity.
Qed.
Theorem hist_ok_apply_factoid_block h s fs s' :
  apply_factoid_block h s fs = Ok s' ->
  Forall (fun r => 0 < exec_of (hist s') (ht_hash r)) (burn_rows fs) ->
  hist_ok s -> hist_ok s'.
Proof.
  intros H Hex Hok. destruct (apply_factoid_block_history h s fs s' H) as (R1 & R2 & R3).
  exact (hist_ok_coinbase_writer s s' _ _ R2 R1 (burn_rows_action fs) Hex (R3 0) Hok).
Qed.

Lemma dev_rows_from_action after h l : forall i j, Forall (fun r => ht_action r = 3 \/ ht_action r = 4) (dev_rows_from after h i j l).
Proof.
  induction l as [|[[[a b] pre] post] l IH]; intros i j; cbn [dev_rows_from]; constructor; [left; reflexivity|apply IH].
Qed.
Theorem hist_ok_developers_payouts h ts s s' :
  fst (developers_payouts c h ts s) = Ok s' ->
  Forall (fun r => 0 < exec_of (hist s') (ht_hash r)) (dev_rows c h) ->
  hist_ok s -> hist_ok s'.
Proof.
  intros H Hex Hok. destruct (developers_payouts_history c h ts s s' H) as (R1 & R2 & R3).
  refine (hist_ok_coinbase_writer s s' _ _ R2 R1 _ Hex (R3 0) Hok).
  unfold dev_rows. generalize dev_rewards. intros l. apply dev_rows_from_action.
Qed.

Theorem hist_ok_snapshot_payouts h ts rates s s' :
  0 < h ->
  snapshot_payouts c h ts rates s = Ok s' ->
  0 < exec_of (hist s') (mock_hash h) \/ htxs s' = htxs s ->
  hist_ok s -> hist_ok s'.
Proof.
  intros Hh H Hex Hok. destruct (snapshot_payouts_history c h ts rates s s' H) as (rows & R1 & R2 & R3 & R4 & R5).
  assert (Hrows : rows = [] \/ 0 < exec_of (hist s') (mock_hash h)).
  { destruct Hex as [Hex|Hex]; [right; exact Hex|]. left. rewrite Hex in R1.
    apply (f_equal (@length htx)) in R1. rewrite app_length in R1. destruct rows; [reflexivity|cbn in R1; lia]. }
  destruct R3 as [R3|R3].
  - refine (hist_ok_coinbase_writer s s' rows [] _ R1 _ _ (R5 0) Hok).
    + rewrite app_nil_r. exact R3.
    + eapply Forall_impl; [|exact R2]. cbn. intros r (_ & Hr & _). left; exact Hr.
    + destruct Hrows as [->|Hp]; [constructor|]. eapply Forall_impl; [|exact R2]. cbn. intros r (-> & _). exact Hp.
  - refine (hist_ok_coinbase_writer s s' rows _ R3 R1 _ _ (R5 0) Hok).
    + eapply Forall_impl; [|exact R2]. cbn. intros r (_ & Hr & _). left; exact Hr.
    + destruct Hrows as [->|Hp]; [constructor|]. eapply Forall_impl; [|exact R2]. cbn. intros r (-> & _). exact Hp.
Qed.

(* a sufficient condition for the side condition of the coinbase writers: the hash is new and the batch row
   inserted for it says executed *)
Lemma exec_of_fresh_append l B hs : has_batch l hs = false -> 0 < exec_of B hs -> 0 < exec_of (l ++ B) hs.
Proof. intros H1 H2. rewrite (exec_of_app_new _ _ _ H1). exact H2. Qed.

(* ---- the one-time adjustments touch only the special addresses ------------------------------------------------------ *)
Lemma special_mint : special_addr GlobalMintAddress = true.
Proof. vm_compute. reflexivity. Qed.

Theorem hist_ok_mint_tokens s s' : mint_tokens s = Ok s' -> hist_ok s -> hist_ok s'.
Proof.
  unfold mint_tokens. generalize mint_list as l. intros l H Hok.
  refine (fold_res_inv hist_ok (fun s0 m => add_to_balance s0 GlobalMintAddress (fst m) (snd m)) l _ s s' Hok H).
  intros s0 m s1 Hok0 Hs. destruct (add_to_balance_tables _ _ _ _ _ Hs) as (T1 & T2 & _).
  apply (hist_ok_bal_special s0 s1 T2 T1); [|exact Hok0].
  intros a t Hsp. rewrite (get_bal_add _ _ _ _ _ a t Hs).
  destruct (Z.eqb_spec GlobalMintAddress a) as [<-|N]; [rewrite special_mint in Hsp; discriminate|]. cbn. lia.
Qed.

Lemma sub_ignoring_special s a t v s' :
  special_addr a = true -> sub_ignoring_txerr s a t v = Ok s' -> hist_ok s -> hist_ok s'.
Proof.
  intros Ha H Hok. unfold sub_ignoring_txerr in H.
  destruct (sub_from_balance s a t v) as [s1| |code] eqn:E; inversion H; subst; [|exact Hok].
  destruct (sub_from_balance_tables _ _ _ _ _ E) as (T1 & T2 & _).
  apply (hist_ok_bal_special s s' T2 T1); [|exact Hok].
  intros a' t' Hsp. rewrite (get_bal_sub _ _ _ _ _ a' t' E).
  destruct (Z.eqb_spec a a') as [<-|N]; [rewrite Ha in Hsp; discriminate|]. cbn. lia.
Qed.

Theorem hist_ok_nullify_minted cm s s' : nullify_minted cm s = Ok s' -> hist_ok s -> hist_ok s'.
Proof.
  unfold nullify_minted. generalize mint_list as l. intros l H Hok.
  refine (fold_res_inv hist_ok (fun s0 m => sub_ignoring_txerr s0 GlobalMintAddress (fst m) (get_bal (bal cm) GlobalMintAddress (fst m))) l _ s s' Hok H).
  intros s0 m s1 Hok0 Hs. exact (sub_ignoring_special _ _ _ _ _ special_mint Hs Hok0).
Qed.

Lemma special_burn : special_addr GlobalBurnAddress = true.
Proof. vm_compute. reflexivity. Qed.
Lemma special_old_burn : special_addr GlobalOldBurnAddress = true.
Proof. vm_compute. reflexivity. Qed.

(* NullifyBurnAddress: debits a special address; before 2.0.2 it also writes batch rows (executed at h) and
   coinbase rows of amount 0 at that special address: whatever their status, they stand for nothing *)
Theorem hist_ok_nullify_burn cm h ts s : hist_ok s -> hist_ok (nullify_burn c cm h ts s).
Proof.
  unfold nullify_burn.
  set (step := fun (acc : Z * Z * (bool * db)) (t : Z) => _).
  generalize (0, (if c_V202EnhanceActivation c <=? h then 50 else 0)) as ij.
  generalize true as live. generalize all_tickers as l.
  assert (G : forall l live ij s0, hist_ok s0 -> hist_ok (snd (snd (fold_left step l (ij, (live, s0)))))).
  { induction l as [|t l IH]; intros live ij s0 Hp; cbn [fold_left]; [exact Hp|].
    destruct ij as [i j]. unfold step at 2. destruct live; cbn [negb]; [|apply IH; exact Hp].
    set (a := if c_V202EnhanceActivation c <=? h then GlobalBurnAddress else GlobalOldBurnAddress).
    assert (Ha : special_addr a = true) by (unfold a; destruct (_ <=? h); [apply special_burn|apply special_old_burn]).
    set (s1 := match sub_ignoring_txerr s0 a t (get_bal (bal cm) a t) with Ok s' => s' | _ => s0 end).
    assert (Hp1 : hist_ok s1).
    { unfold s1. destruct (sub_ignoring_txerr s0 a t (get_bal (bal cm) a t)) eqn:E; try exact Hp.
      exact (sub_ignoring_special _ _ _ _ _ Ha E Hp). }
    destruct (c_V202EnhanceActivation c <=? h); [apply IH; exact Hp1|].
    destruct (insert_hbatch s1 _) as [s2|?|?] eqn:E2; try (apply IH; exact Hp1).
    assert (Hp2 : hist_ok s2).
    { apply insert_hbatch_ok in E2 as (B1 & B2 & B3 & _).
      refine (hist_ok_append s1 s2 [] _ B1 _ (Forall_nil _) _ Hp1); [rewrite app_nil_r; exact B2|].
      intros a' t' _. rewrite B3, sum_counted_nil. lia. }
    destruct (0 <? _); [apply IH; exact Hp2|].
    destruct (insert_htx s2 _ _) as [s3|?|?] eqn:E3; try (apply IH; exact Hp2).
    apply IH.
    pose proof E2 as E2'. apply insert_hbatch_ok in E2' as (B1 & _).
    apply insert_htx_ok in E3 as (_ & C1 & C2 & C3 & _).
    refine (hist_ok_append s2 s3 _ [] _ C1 _ _ Hp2); [rewrite app_nil_r; exact C2| |].
    - constructor; [|constructor]. rewrite C2, B1, has_batch_app. cbn [coinbase_row ht_hash has_batch existsb hb_hash].
      rewrite Z.eqb_refl. cbn [orb]. apply orb_true_r.
    - intros a' t' _. rewrite C3, sum_counted_cons, sum_counted_nil. unfold counted.
      destruct (0 <? _); [|lia]. rewrite row_effect_coinbase, effect_on_cons, effect_on_nil. cbn [fst snd].
      destruct (_ && _); lia. }
  intros l live ij. apply G.
Qed.

(* ---- operations that touch none of the three tables ------------------------------------------------------------------ *)
Lemma hist_ok_frame s s' : hist s' = hist s -> htxs s' = htxs s -> bal s' = bal s -> hist_ok s -> hist_ok s'.
Proof. intros H1 H2 H3. apply hist_ok_bal_special; [exact H1|exact H2|]. intros a t _. rewrite H3. reflexivity. Qed.

Lemma hist_ok_set_snaps s cu pa : hist_ok s -> hist_ok (set_snaps s cu pa).
Proof. apply hist_ok_frame; reflexivity. Qed.
Lemma hist_ok_insert_grade h s v s' : insert_grade h s v = Ok s' -> hist_ok s -> hist_ok s'.
Proof.
  unfold insert_grade. destruct (grades s !! h); [discriminate|]. destruct (existsb _ _); [discriminate|].
  intros H; inversion H; subst. apply hist_ok_frame; reflexivity.
Qed.
Lemma hist_ok_insert_rates cm h s a ph s' : insert_rates cm h s a ph = Ok s' -> hist_ok s -> hist_ok s'.
Proof.
  unfold insert_rates. destruct (rates s !! h); [discriminate|].
  destruct (has_dup _); [discriminate|]. destruct (existsb _ _); [discriminate|].
  repeat match goal with |- (if ?b then _ else _) = _ -> _ => destruct b; [discriminate|] end.
  intros H; inversion H; subst. apply hist_ok_frame; reflexivity.
Qed.
Lemma hist_ok_insert_bank s h a s' : insert_bank s h a = Ok s' -> hist_ok s -> hist_ok s'.
Proof. unfold insert_bank. destruct (bank s !! h); [discriminate|]. intros H; inversion H; subst. apply hist_ok_frame; reflexivity. Qed.
Lemma hist_ok_update_bank s h u r s' : update_bank s h u r = Ok s' -> hist_ok s -> hist_ok s'.
Proof.
  unfold update_bank. destruct (bank s !! h) as [[[? ?] ?]|]; [|discriminate].
  intros H; inversion H; subst. apply hist_ok_frame; reflexivity.
Qed.
Lemma hist_ok_insert_synced s h s' : insert_synced s h = Ok s' -> hist_ok s -> hist_ok s'.
Proof. unfold insert_synced. destruct (versions s !! h); [discriminate|]. intros H; inversion H; subst. apply hist_ok_frame; reflexivity. Qed.

(* recordPegnetRequests when no batch joined pegConversions: only the bank row moves *)
Lemma hist_ok_record_peg_requests_none h s rates avgs bankamt bh s' :
  record_peg_requests c h s [] rates avgs bankamt bh = Ok s' -> hist_ok s -> hist_ok s'.
Proof.
  unfold record_peg_requests, record_peg_requests_ord. cbn [flat_map map has_dup_txid payouts fold_left rbind].
  destruct (_ <=? bh); [apply hist_ok_update_bank|]. intros H; inversion H; subst; auto.
Qed.
End WithCfg.

(* ==== the side condition of the coinbase writers from a condition on the RESULTING table =================== *)
(* when no entry hash occurs twice in pn_history_txbatch after the writer ran, the hash of every row it
   inserted is new, so its status is the one the writer set: the height, which is positive *)
Lemma exec_of_nodup L b : NoDup (map hb_hash L) -> In b L -> exec_of L (hb_hash b) = hb_exec b.
Proof.
  unfold exec_of. induction L as [|r L IH]; intros Hnd Hin; [contradiction|]. cbn [map] in Hnd. inversion Hnd as [|? ? Hnotin Hnd']; subst.
  cbn [find]. destruct (Z.eqb_spec (hb_hash r) (hb_hash b)) as [E|N].
  - destruct Hin as [->|Hin]; [reflexivity|]. exfalso. apply Hnotin. rewrite E. apply in_map. exact Hin.
  - destruct Hin as [->|Hin]; [congruence|]. apply IH; assumption.
Qed.

Section NoDupWriters.
Variable c : cfg.

Corollary hist_ok_pay_winners_nodup s ts ws s' :
  pay_winners s ts ws = Ok s' -> payouts_fit ws = true ->
  NoDup (map hb_hash (hist s')) -> Forall (fun w => 0 < w_height w) ws ->
  hist_ok c s -> hist_ok c s'.
Proof.
  intros H Hfit Hnd Hpos Hok. refine (hist_ok_pay_winners c s ts ws s' H Hfit _ Hok).
  destruct (pay_winners_history s ts ws s' H Hfit) as (_ & R2 & _).
  apply Forall_forall. intros r Hr. unfold winner_rows in Hr. apply in_flat_map in Hr as (w & Hw & Hr).
  destruct (w_addr w) as [a|] eqn:Ea; [|contradiction]. destruct Hr as [<-|[]].
  set (b := {| hb_hash := w_hash w; hb_height := w_height w; hb_order := 0; hb_ts := ts; hb_exec := w_height w |}).
  assert (Hin : In b (hist s')).
  { rewrite R2. apply in_or_app. right. unfold winner_batches. apply in_flat_map. exists w. split; [exact Hw|]. rewrite Ea. left; reflexivity. }
  change (ht_hash (coinbase_row (w_hash w) 0 a PTickerPEG (w_payout w))) with (hb_hash b).
  rewrite (exec_of_nodup _ b Hnd Hin). cbn [hb_exec b]. rewrite Forall_forall in Hpos. apply Hpos; exact Hw.
Qed.

Corollary hist_ok_apply_factoid_block_nodup h s fs s' :
  0 < h -> apply_factoid_block h s fs = Ok s' -> NoDup (map hb_hash (hist s')) -> hist_ok c s -> hist_ok c s'.
Proof.
  intros Hh H Hnd Hok. refine (hist_ok_apply_factoid_block c h s fs s' H _ Hok).
  destruct (apply_factoid_block_history h s fs s' H) as (_ & R2 & _).
  apply Forall_forall. intros r Hr. unfold burn_rows in Hr. apply in_flat_map in Hr as (f & Hf & Hr).
  destruct (is_burn f) as [[a v]|] eqn:Eb; [|contradiction]. destruct Hr as [<-|[]].
  set (b := {| hb_hash := f_txid f; hb_height := h; hb_order := -1; hb_ts := f_ts f; hb_exec := h |}).
  assert (Hin : In b (hist s')).
  { rewrite R2. apply in_or_app. right. unfold burn_batches. apply in_flat_map. exists f. split; [exact Hf|]. rewrite Eb. left; reflexivity. }
  change (ht_hash (burn_row f a v)) with (hb_hash b). rewrite (exec_of_nodup _ b Hnd Hin). exact Hh.
Qed.

Lemma dev_rows_batches after h ts l : forall i j r,
  In r (dev_rows_from after h i j l) ->
  exists b, In b (dev_batches_from h ts j l) /\ hb_hash b = ht_hash r /\ hb_exec b = h.
Proof.
  induction l as [|[[[a bits] pre] post] l IH]; intros i j r Hr; cbn [dev_rows_from dev_batches_from] in *; [contradiction|].
  destruct Hr as [<-|Hr].
  - eexists. split; [left; reflexivity|]. split; reflexivity.
  - destruct (IH _ _ _ Hr) as (b & Hb & E1 & E2). exists b. split; [right; exact Hb|]. auto.
Qed.
Corollary hist_ok_developers_payouts_nodup h ts s s' :
  0 < h -> fst (developers_payouts c h ts s) = Ok s' -> NoDup (map hb_hash (hist s')) -> hist_ok c s -> hist_ok c s'.
Proof.
  intros Hh H Hnd Hok. refine (hist_ok_developers_payouts c h ts s s' H _ Hok).
  destruct (developers_payouts_history c h ts s s' H) as (_ & R2 & _).
  apply Forall_forall. intros r Hr. unfold dev_rows in Hr. unfold dev_batches in R2. revert Hr R2. generalize dev_rewards. intros l Hr R2.
  destruct (dev_rows_batches _ h ts l _ _ r Hr) as (b & Hb & E1 & E2).
  assert (Hin : In b (hist s')) by (rewrite R2; apply in_or_app; right; exact Hb).
  rewrite <- E1, (exec_of_nodup _ b Hnd Hin), E2. exact Hh.
Qed.

Corollary hist_ok_snapshot_payouts_nodup h ts rates s s' :
  0 < h -> snapshot_payouts c h ts rates s = Ok s' -> NoDup (map hb_hash (hist s')) -> hist_ok c s -> hist_ok c s'.
Proof.
  intros Hh H Hnd Hok. refine (hist_ok_snapshot_payouts c h ts rates s s' Hh H _ Hok).
  destruct (snapshot_payouts_history c h ts rates s s' H) as (rows & R1 & _ & _ & R4 & _).
  destruct rows as [|r0 rows0]; [right; rewrite R1, app_nil_r; reflexivity|left].
  set (b := {| hb_hash := mock_hash h; hb_height := h; hb_order := 0; hb_ts := ts; hb_exec := h |}).
  assert (Hin : In b (hist s')) by (rewrite R4 by discriminate; apply in_or_app; right; left; reflexivity).
  change (mock_hash h) with (hb_hash b). rewrite (exec_of_nodup _ b Hnd Hin). exact Hh.
Qed.
End NoDupWriters.

(* ==== non-vacuity: the predicate holds on a concrete non-trivial state built by the writers, and the
   hypotheses of the holding-path lemma are satisfiable there ================================================ *)
Definition ok_or {A} (d : A) (r : res A) : A := match r with Ok a => a | _ => d end.
(* alice burns 100 FCT (101); transfers 30 to bob and asks for a conversion, the transfer repeated (102); an
   overdraft (103); then the rated block 104 looks at the held conversion *)
Definition hx_s1 : db := ok_or genesis (apply_factoid_block 101 genesis [ex_burn 501 100]).
Definition hx_s2 : db := ok_or genesis (apply_tx_block ex_cfg 102 hx_s1 [ex_transfer 601 30; ex_conversion 602 20; ex_transfer 601 30]).
Definition hx_s3 : db := ok_or genesis (apply_tx_block ex_cfg 103 hx_s2 [ex_transfer 603 1000]).
Definition hx_s4 : db := fst (ok_or (genesis, false) (apply_held ex_cfg 104 ex_rates ex_rates hx_s3 (ex_conversion 602 20) 102)).
Definition hx_s5 : db := ok_or genesis (pay_winners hx_s4 1104 (v_winners (ex_verdict 104))).

Example hist_ok_example :
  hist_ok ex_cfg hx_s3 /\
  (* the hypotheses of hist_ok_apply_held at that state *)
  apply_held ex_cfg 104 ex_rates ex_rates hx_s3 (ex_conversion 602 20) 102 = Ok (hx_s4, false) /\
  entry_valid_at ex_cfg (ex_conversion 602 20) 102 = Some ex_conv_txs /\
  no_deferred ex_cfg 104 ex_conv_txs = true /\
  convs_fit ex_cfg 104 ex_rates ex_rates ex_conv_txs = true /\
  rows_of 602 (htxs hx_s3) = map fst (history_rows_of 602 ex_conv_txs) /\
  exec_of (hist hx_s3) 602 <= 0 /\
  (* its conclusion, the winners' step after it, and two cells read both ways *)
  hist_ok ex_cfg hx_s4 /\ hist_ok ex_cfg hx_s5 /\
  get_bal (bal hx_s5) alice PTickerUSD = 80 /\ hist_sum ex_cfg hx_s5 alice PTickerUSD = 80 /\
  get_bal (bal hx_s5) alice PTickerFCT = 50 /\ hist_sum ex_cfg hx_s5 alice PTickerFCT = 50 /\
  get_bal (bal hx_s5) bob PTickerPEG = 5 /\ hist_sum ex_cfg hx_s5 bob PTickerPEG = 5.
Proof.
  assert (E1 : apply_factoid_block 101 genesis [ex_burn 501 100] = Ok hx_s1) by (vm_compute; reflexivity).
  assert (E2 : apply_tx_block ex_cfg 102 hx_s1 [ex_transfer 601 30; ex_conversion 602 20; ex_transfer 601 30] = Ok hx_s2) by (vm_compute; reflexivity).
  assert (E3 : apply_tx_block ex_cfg 103 hx_s2 [ex_transfer 603 1000] = Ok hx_s3) by (vm_compute; reflexivity).
  assert (E4 : apply_held ex_cfg 104 ex_rates ex_rates hx_s3 (ex_conversion 602 20) 102 = Ok (hx_s4, false)) by (vm_compute; reflexivity).
  assert (E5 : pay_winners hx_s4 1104 (v_winners (ex_verdict 104)) = Ok hx_s5) by (vm_compute; reflexivity).
  assert (H1 : hist_ok ex_cfg hx_s1).
  { refine (hist_ok_apply_factoid_block ex_cfg 101 genesis _ hx_s1 E1 _ (hist_ok_genesis ex_cfg)).
    apply Forall_forall. intros r [<-|[]]. vm_compute. reflexivity. }
  assert (H2 : hist_ok ex_cfg hx_s2) by (refine (hist_ok_apply_tx_block ex_cfg 102 hx_s1 _ hx_s2 _ E2 H1); lia).
  assert (H3 : hist_ok ex_cfg hx_s3) by (refine (hist_ok_apply_tx_block ex_cfg 103 hx_s2 _ hx_s3 _ E3 H2); lia).
  assert (V : entry_valid_at ex_cfg (ex_conversion 602 20) 102 = Some ex_conv_txs) by (vm_compute; reflexivity).
  assert (ND : no_deferred ex_cfg 104 ex_conv_txs = true) by (vm_compute; reflexivity).
  assert (CF : convs_fit ex_cfg 104 ex_rates ex_rates ex_conv_txs = true) by (vm_compute; reflexivity).
  assert (RW : rows_of 602 (htxs hx_s3) = map fst (history_rows_of 602 ex_conv_txs)) by (vm_compute; reflexivity).
  assert (LE : exec_of (hist hx_s3) 602 <= 0) by (vm_compute; discriminate).
  assert (H4 : hist_ok ex_cfg hx_s4) by (refine (hist_ok_apply_held ex_cfg 104 _ _ hx_s3 _ 102 hx_s4 false _ _ E4 V ND CF RW LE H3); lia).
  assert (H5 : hist_ok ex_cfg hx_s5).
  { refine (hist_ok_pay_winners ex_cfg hx_s4 1104 _ hx_s5 E5 _ _ H4); [vm_compute; reflexivity|].
    apply Forall_forall. intros r [<-|[]]. vm_compute. reflexivity. }
  split; [exact H3|]. split; [exact E4|]. split; [exact V|]. split; [exact ND|]. split; [exact CF|].
  split; [exact RW|]. split; [exact LE|]. split; [exact H4|]. split; [exact H5|].
  repeat match goal with |- _ /\ _ => split; [vm_compute; reflexivity|] end. vm_compute; reflexivity.
Qed.

(* ==== why the side condition of the coinbase writers cannot be dropped ========================================
   a witness in the model's input space: an entry whose hash is the mock transaction id of the second developer
   payout of height 576 arrives earlier and is rejected (status -1, one row at index 0).  The developer payouts of
   576 still succeed (other height, other index), the developer is credited, but the first batch row of that hash
   says -1: the credited row does not count as executed, and the cell is not the replayed history *)
Definition cx_hash : hash := mock_hash_dev 2 576.
Definition cx_dev : addr := match dev_rewards with _ :: (a, _, _, _) :: _ => a | _ => 0 end.
Definition cx_s1 : db := ok_or genesis (apply_tx_block ex_cfg 102 genesis [ex_transfer cx_hash 30]).
Definition cx_s2 : db := ok_or genesis (fst (developers_payouts ex_cfg 576 1576 cx_s1)).

Example accounts_fails_on_hash_collision :
  apply_tx_block ex_cfg 102 genesis [ex_transfer cx_hash 30] = Ok cx_s1 /\
  fst (developers_payouts ex_cfg 576 1576 cx_s1) = Ok cx_s2 /\
  hist_ok ex_cfg cx_s1 /\ status_of cx_s1 cx_hash = [-1] /\
  special_addr cx_dev = false /\
  get_bal (bal cx_s2) cx_dev PTickerPEG = 38000000000 /\ hist_sum ex_cfg cx_s2 cx_dev PTickerPEG = 0 /\
  ~ accounts ex_cfg cx_s2.
Proof.
  assert (E1 : apply_tx_block ex_cfg 102 genesis [ex_transfer cx_hash 30] = Ok cx_s1) by (vm_compute; reflexivity).
  assert (E2 : fst (developers_payouts ex_cfg 576 1576 cx_s1) = Ok cx_s2) by (vm_compute; reflexivity).
  assert (H1 : hist_ok ex_cfg cx_s1) by (refine (hist_ok_apply_tx_block ex_cfg 102 genesis _ cx_s1 _ E1 (hist_ok_genesis ex_cfg)); lia).
  assert (Hs : special_addr cx_dev = false) by (vm_compute; reflexivity).
  assert (B : get_bal (bal cx_s2) cx_dev PTickerPEG = 38000000000) by (vm_compute; reflexivity).
  assert (S : hist_sum ex_cfg cx_s2 cx_dev PTickerPEG = 0) by (vm_compute; reflexivity).
  split; [exact E1|]. split; [exact E2|]. split; [exact H1|]. split; [vm_compute; reflexivity|].
  split; [exact Hs|]. split; [exact B|]. split; [exact S|].
  intros A. specialize (A cx_dev PTickerPEG Hs). rewrite B, S in A. discriminate.
Qed.

Print Assumptions hist_ok_apply_entry.
Print Assumptions hist_ok_apply_tx_block.
Print Assumptions hist_ok_apply_held.
Print Assumptions hist_ok_pay_winners.
Print Assumptions hist_ok_apply_factoid_block.
Print Assumptions hist_ok_developers_payouts.
Print Assumptions hist_ok_snapshot_payouts.
Print Assumptions hist_ok_pay_winners_nodup.
Print Assumptions hist_ok_apply_factoid_block_nodup.
Print Assumptions hist_ok_developers_payouts_nodup.
Print Assumptions hist_ok_snapshot_payouts_nodup.
Print Assumptions hist_ok_nullify_burn.
Print Assumptions hist_ok_mint_tokens.
Print Assumptions hist_ok_nullify_minted.
