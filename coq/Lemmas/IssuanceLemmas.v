(* Lemmas/IssuanceLemmas.v — C15: scheduled issuance.  Facts about the regenerated tables (by
   computation over the whole table) and about when the scheduled steps fire. *)
From Model Require Import Block.
From Lemmas Require Import DbLemmas.
From Gen Require Import Consts.
From Coq Require Import Lia.
Open Scope Z_scope.

Definition dev_pre (d : Z * Z * Z * Z) : Z := let '(_, _, pre, _) := d in pre.
Definition dev_post (d : Z * Z * Z * Z) : Z := let '(_, _, _, post) := d in post.
Definition dev_bits (d : Z * Z * Z * Z) : Z := let '(_, b, _, _) := d in b.
Definition dev_addr (d : Z * Z * Z * Z) : Z := let '(a, _, _, _) := d in a.

(* the developer payouts add up to exactly 2000 PEG x 144 from 2.0.2 on, 2000 PEG before *)
Lemma dev_total_post : fold_right (fun d acc => dev_post d + acc) 0 dev_rewards = PerBlockDevelopers * SnapshotRate.
Proof. vm_compute. reflexivity. Qed.
Lemma dev_total_pre : fold_right (fun d acc => dev_pre d + acc) 0 dev_rewards = PerBlockDevelopers.
Proof. vm_compute. reflexivity. Qed.
(* each amount is the binary64 product the code computes, truncated: uint64((PerBlockDevelopers/100) * pct [* 144]),
   recomputed here with Coq's primitive floats from the percentage's bit pattern *)
Lemma dev_amounts_are_the_float_products :
  forallb (fun d => (dev_pre d =? dev_reward (PerBlockDevelopers / 100) (dev_bits d) false) &&
                    (dev_post d =? dev_reward (PerBlockDevelopers / 100) (dev_bits d) true)) dev_rewards = true.
Proof. vm_compute. reflexivity. Qed.
(* the percentages add up to 100 (as exact binary64 values: all are small integers) *)
Lemma dev_percentages_sum : fold_right (fun d acc => Z_of_f (f_of_bits (dev_bits d)) + acc) 0 dev_rewards = 100.
Proof. vm_compute. reflexivity. Qed.
Lemma dev_addresses_distinct : NoDup (map dev_addr dev_rewards).
Proof.
  assert (H : (fix nd (l : list Z) := match l with [] => true | x :: r => negb (existsb (Z.eqb x) r) && nd r end) (map dev_addr dev_rewards) = true)
    by (vm_compute; reflexivity).
  revert H. generalize (map dev_addr dev_rewards). induction l as [|x l IH]; intros H; constructor.
  - apply andb_prop in H as [H _]. intros Hin. apply negb_true_iff in H.
    assert (existsb (Z.eqb x) l = true) by (apply existsb_exists; exists x; split; [exact Hin|apply Z.eqb_refl]). congruence.
  - apply IH. apply andb_prop in H as [_ H]. exact H.
Qed.

(* when the scheduled steps fire *)
Definition dev_due (c : cfg) (h : Z) : bool := (c_V20DevRewardsHeightActivation c <=? h) && (h mod SnapshotRate =? 0).
Definition snapshot_due (c : cfg) (h : Z) : bool := (c_V20HeightActivation c <=? h) && (h mod SnapshotRate =? 0).
Lemma dev_due_iff c h : dev_due c h = true <-> c_V20DevRewardsHeightActivation c <= h /\ (144 | h).
Proof.
  unfold dev_due. rewrite andb_true_iff, Z.leb_le, Z.eqb_eq. assert (SnapshotRate = 144) as -> by reflexivity.
  rewrite <- Z.mod_divide by lia. tauto.
Qed.

(* the mainnet activations of the one-time adjustments are four distinct heights, none of them a
   payout height: each adjustment happens in exactly one block and never coincides with another *)
Lemma mainnet_one_time_heights_distinct :
  NoDup [V20DevRewardsHeightActivation; V202EnhanceActivation; V204EnhanceActivation; V204BurnMintedTokenActivation] /\
  forallb (fun h => negb (h mod SnapshotRate =? 0)) [V20DevRewardsHeightActivation; V202EnhanceActivation; V204EnhanceActivation; V204BurnMintedTokenActivation] = true.
Proof.
  split; [|vm_compute; reflexivity].
  repeat constructor; cbn; intros H; repeat destruct H as [H|H]; try discriminate H; try contradiction.
Qed.

(* the minted supply: every listed amount is positive, tickers are distinct and valid *)
Lemma mint_list_wellformed :
  forallb (fun m => (0 <? snd m) && valid_ticker (fst m) && (snd m <? two63)) mint_list = true /\
  (fix nd (l : list Z) := match l with [] => true | x :: r => negb (existsb (Z.eqb x) r) && nd r end) (map fst mint_list) = true.
Proof. split; vm_compute; reflexivity. Qed.
