(* Refuted/C10.v — the full statement "no injected fault ever changes the committed result" is
   false of the faithful model of the unchanged code at one family of call sites: the result of
   NullifyBurnAddress is discarded by DBlockSync (and inside it the errors of SelectBalances and
   SubFromBalance are only logged).  A single failed dblock-by-height request at the activation
   height commits the block without the zeroing.  Recorded in known_findings.jsonl. *)
From Model Require Import Examples Sync.
From Gen Require Import Consts.
Open Scope Z_scope.

Definition cfg10 : cfg := {|
  c_PegnetActivation := 100; c_GradingV2Activation := 100; c_TransactionConversionActivation := 100;
  c_PEGPricingActivation := 100; c_OneWaypFCTConversions := 100; c_PegnetConversionLimitActivation := 100;
  c_PEGFreeFloatingPriceActivation := 100; c_V4OPRUpdate := 100; c_V20HeightActivation := 102;
  c_V20DevRewardsHeightActivation := 102; c_SprSignatureActivation := 102; c_OneWaySmallAssetsConversions := 103;
  c_V202EnhanceActivation := 103; c_V204EnhanceActivation := 700; c_V204BurnMintedTokenActivation := 800;
  c_PIP10AverageActivation := 900; c_Fat2RCDEActivation := 100; c_AveragePeriod := 4 |}.
Definition to_burn_address (hs amount : Z) : entry :=
  {| e_hash := hs; e_ts := 2000;
     e_batch := Some [{| tx_addr := alice; tx_type := PTickerFCT; tx_amt := amount;
                         tx_transfers := [{| tr_addr := GlobalBurnAddress; tr_amt := amount |}]; tx_conv := 0 |}];
     e_rcde := false |}.
(* 101: alice burns 100 FCT; 102 (before 2.0.2): 10 pFCT sent to the new burn address are credited
   to it; 103 = V202EnhanceActivation: that address is zeroed *)
Definition chain10 : list block :=
  [ ex_block 101 None None [ex_burn 501 100]; ex_block 102 None (Some [to_burn_address 601 10]) [] ].
Definition block103 : block := ex_block 103 None None [].

(* the fault-free application of block 103 leaves 0 pFCT at the burn address, the one with a single
   failed request inside NullifyBurnAddress commits the block with the 10 pFCT still there *)
Definition nullify_fault_witness : bool :=
  match replay cfg10 genesis empty_cache chain10 with
  | Done (cm, mem) =>
    match step_block cfg10 cm mem block103, step_block_nullify_failed cfg10 cm mem block103 with
    | Done (s1, _), Done (s2, _) =>
      (get_bal (bal s1) GlobalBurnAddress PTickerFCT =? 0) && (get_bal (bal s2) GlobalBurnAddress PTickerFCT =? 10)
    | _, _ => false
    end
  | _ => false
  end.
Theorem nullify_fault_changes_the_ledger_refuted : nullify_fault_witness = true.
Proof. vm_compute. reflexivity. Qed.
