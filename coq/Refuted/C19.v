(* Refuted/C19.v — statements about the version lock that the faithful model of the code
   VIOLATES, each with a concrete witness checked by computation.  Every witness history is
   also replayed on the real code by gen/forks (fixedHistories) on every run. *)
From Coq Require Import ZArith List Bool Lia.
From Model Require Import Base Forks.
From Lemmas Require Import ForksLemmas.
Import ListNotations.
Open Scope Z_scope.

(* 1. The full "if and only if" over ALL histories is false: "if" fails when a build that
   predates version tracking syncs blocks AFTER a tracked build has run on the database.
   The untracked build writes no pn_sync_version rows; the back-fill only inserts a -1 at the
   fork heights themselves and its PRIMARY KEY conflict with the tracked row at the fork
   height is ignored, so heights 14, 15 below — above the fork at 12, synced without any
   version — are never noticed.
   Reachable by a real operator: yes, by running a pegnetd binary older than the version_lock
   feature on a database that a newer binary has already synced (a downgrade to a very old
   build, then an upgrade again).  The downgrade check cannot see it because the old binary
   neither checks nor records anything.  Props/C19.v proves the iff with exactly this class
   excluded ([untracked_first]) and proves "refused -> justified" for every history. *)
Theorem version_lock_iff_any_order_refuted :
  exists forks base h cur,
    0 <= base /\ forks_wf base forks /\ -1 <= cur /\
    below_fork_lit forks (synced_log forks base h) /\
    refuses forks base h cur = false.
Proof.
  exists [(0, -1); (12, 1)], 10, [(Tracked 1, 3%nat); (Untracked, 2%nat)], 1.
  split; [lia|]. split; [apply forks_wfb_spec; vm_compute; reflexivity|]. split; [lia|]. split.
  - exists 12, 1, 14. split; [right; left; reflexivity|]. split; [lia|].
    left. split; [vm_compute; tauto|lia].
  - vm_compute. reflexivity.
Qed.

(* the same with the untracked blocks between two tracked sessions of adequate builds *)
Theorem version_lock_gap_between_tracked_sessions_refuted :
  exists forks base h cur,
    0 <= base /\ forks_wf base forks /\ -1 <= cur /\
    below_fork_lit forks (synced_log forks base h) /\
    refuses forks base h cur = false.
Proof.
  exists [(0, -1); (12, 1)], 10, [(Tracked 1, 3%nat); (Untracked, 2%nat); (Tracked 1, 2%nat)], 1.
  split; [lia|]. split; [apply forks_wfb_spec; vm_compute; reflexivity|]. split; [lia|]. split.
  - exists 12, 1, 15. split; [right; left; reflexivity|]. split; [lia|].
    left. split; [vm_compute; tauto|lia].
  - vm_compute. reflexivity.
Qed.

(* 2. Read literally — "any block at or above a fork height synced by a build predating
   version tracking" with the table entry {0, -1} counted as a fork — the statement is false:
   a legacy database that has not reached any real fork is (rightly) accepted.  The code
   records an untracked build as version -1 and {0, -1} demands only >= -1; the theorem
   carries this as the conjunct [0 <= m].  Not a defect. *)
Theorem hyp_untracked_counts_as_minus_one_needed :
  exists forks base h cur,
    0 <= base /\ forks_wf base forks /\ -1 <= cur /\ untracked_first h = true /\
    (exists A m b, In (A, m) forks /\ A <= b /\ In (b, Untracked) (synced_log forks base h)) /\
    refuses forks base h cur = false.
Proof.
  exists [(0, -1); (12, 1)], 10, [(Untracked, 1%nat)], 1.
  split; [lia|]. split; [apply forks_wfb_spec; vm_compute; reflexivity|]. split; [lia|].
  split; [reflexivity|]. split.
  - exists 0, (-1), 11. split; [left; reflexivity|]. split; [lia|]. vm_compute. tauto.
  - vm_compute. reflexivity.
Qed.

(* 3. Without [base < A \/ m <= -1]: a fork at or below the base height that demands a
   version makes the lock refuse databases that no inadequate build ever touched — even a
   fresh, empty one (top = COALESCE(max(height), 0) = 0 >= A and COALESCE(MIN(version), -1) =
   -1 < m), and any tracked database through the back-fill's -1 row at A.
   Reachable: not with the table in the repository (both forks are far above
   PegnetActivation; the hypothesis is re-checked on the regenerated table in
   Props/C19.v); a future table entry at or below PegnetActivation would brick every node. *)
Theorem hyp_fork_above_base_needed :
  exists forks base h cur,
    0 <= base /\ -1 <= cur /\ untracked_first h = true /\
    synced_log forks base h = [] /\
    refuses forks base h cur = true.
Proof.
  exists [(0, 0)], 0, [], 0. repeat split; try lia; vm_compute; reflexivity.
Qed.

Theorem hyp_fork_above_base_needed_backfill :
  exists forks base h cur,
    0 <= base /\ -1 <= cur /\ untracked_first h = true /\
    ~ (below_fork forks (synced_log forks base h) \/ newer_build cur (synced_log forks base h)) /\
    refuses forks base h cur = true.
Proof.
  exists [(0, -1); (5, 1)], 10, [(Tracked 1, 2%nat)], 1.
  split; [lia|]. split; [lia|]. split; [reflexivity|]. split.
  - rewrite <- charb_spec. vm_compute. discriminate.
  - vm_compute. reflexivity.
Qed.

(* 4. Without [-1 <= cur]: COALESCE(MAX(version), -1) makes a build with a sync version below
   -1 refuse an empty table.  Not reachable (PegnetdSyncVersion is 2 and only grows). *)
Theorem hyp_cur_at_least_minus_one_needed :
  exists forks base h cur,
    0 <= base /\ forks_wf base forks /\ untracked_first h = true /\
    synced_log forks base h = [] /\
    refuses forks base h cur = true.
Proof.
  exists [(0, -1)], 10, [], (-2).
  split; [lia|]. split; [apply forks_wfb_spec; vm_compute; reflexivity|].
  repeat split; vm_compute; reflexivity.
Qed.
