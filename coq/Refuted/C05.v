(* Refuted/C05.v — statements of C05 that are FALSE of the faithful model of the unchanged code.
   Each is a finding candidate; the witnesses are replayed on the Go code by bin/props/c05.py
   (gen/codec extids: mutation rcde-recovery-byte; extids-flips: byte 64 of an RCD-e signature). *)
From Coq Require Import ZArith List Bool.
From Model Require Import Codec Db.
From Gen Require Import Consts.
Import ListNotations.
Open Scope Z_scope.

(* toy oracles: a signature is valid when it is 64 copies of (length of the message mod 251) *)
Definition toy_sig (ty : Z) (pk msg sg : bytes) : bool :=
  beq sg (repeat (Z.of_nat (length msg) mod 251) 64).
Definition toy_hash (rcd : bytes) : Z := fold_left (fun a c => a * 256 + c) rcd 0.
Definition toy_chain : bytes := 207 :: repeat 7 31.
Definition toy_rcde : bytes := 14 :: repeat 9 64.
Definition toy_salt : bytes := [49; 53; 56; 48; 48; 48; 48; 48; 48; 48].
Definition rcde_entry (recovery : Z) : raw_entry :=
  {| re_chain := toy_chain;
     re_extids := [toy_salt; toy_rcde; repeat ((1 + 10 + 32 + 2) mod 251) 64 ++ [recovery]];
     re_content := [123; 125]; re_ts := 1580000000 |}.

(* "One signature authorises one entry" fails for RCD-e: ValidateRCD0e verifies sig[:64] and
   ignores byte 64, while the entry hash (the replay-protection key) covers it.  Two entries that
   differ ONLY in byte 64 of the signature ExtID are both accepted above the activation height,
   and show the verifier the same (public key, message, signature-as-passed) triple. *)
Theorem one_signature_many_entries_rcde_refuted :
  exists e e' : raw_entry,
    e <> e' /\
    re_chain e = re_chain e' /\ re_content e = re_content e' /\ re_ts e = re_ts e' /\
    nth 0 (re_extids e) [] = nth 0 (re_extids e') [] /\
    nth 1 (re_extids e) [] = nth 1 (re_extids e') [] /\
    firstn 64 (nth 2 (re_extids e) []) = firstn 64 (nth 2 (re_extids e') []) /\
    signed_message 0 e = signed_message 0 e' /\
    valid_extids toy_sig toy_hash Fat2RCDEActivation (Fat2RCDEActivation + 1) [toy_hash toy_rcde] e = true /\
    valid_extids toy_sig toy_hash Fat2RCDEActivation (Fat2RCDEActivation + 1) [toy_hash toy_rcde] e' = true.
Proof.
  exists (rcde_entry 0), (rcde_entry 1).
  split; [intros E; apply (f_equal (fun x => nth 64 (nth 2 (re_extids x) []) 0)) in E; vm_compute in E; discriminate|].
  repeat split; try (vm_compute; reflexivity).
Qed.

(* The pair index and the salt are both decimal digits and are concatenated without a
   separator: across DIFFERENT pair indexes the message does not determine (index, salt).
   Unreachable through pegnetd (ValidData allows one input address, hence one pair, index 0),
   recorded because fat103.Validate itself is general. *)
Theorem message_index_salt_ambiguous_refuted :
  exists (i i' : nat) (e e' : raw_entry),
    i <> i' /\ nth 0 (re_extids e) [] <> nth 0 (re_extids e') [] /\
    parse_int64 (nth 0 (re_extids e) []) <> None /\ parse_int64 (nth 0 (re_extids e') []) <> None /\
    signed_message i e = signed_message i' e'.
Proof.
  exists 1%nat, 12%nat,
    {| re_chain := toy_chain; re_extids := [[50; 51]]; re_content := []; re_ts := 0 |},
    {| re_chain := toy_chain; re_extids := [[51]]; re_content := []; re_ts := 0 |}.
  repeat split; try (vm_compute; discriminate); try (vm_compute; reflexivity).
Qed.

(* Without the premise on the first chain-id byte the message is ambiguous: salt 1 on a chain
   starting with the digit 2 and salt 12 on the shifted chain give the same bytes. *)
Theorem message_injective_needs_nondigit_chain_refuted :
  exists salt chain content salt' chain' content',
    length chain = 32%nat /\ length chain' = 32%nat /\
    parse_int64 salt <> None /\ parse_int64 salt' <> None /\
    [48] ++ salt ++ chain ++ content = [48] ++ salt' ++ chain' ++ content' /\ salt <> salt'.
Proof.
  exists [49], (50 :: repeat 65 31), [66], [49; 50], (repeat 65 31 ++ [66]), [].
  repeat split; try (vm_compute; discriminate); try (vm_compute; reflexivity).
Qed.
